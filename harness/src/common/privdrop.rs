//! The least-privilege environment. The harness normally runs as root, owns every file it creates and has
//! every capability and default resource limits; real clients of the segment are ordinary processes that
//! do not own it, and the daemon is meant to be run as an unprivileged service user. Code can depend on
//! that difference without any input value showing it (an open flag that needs ownership, a mapping flag
//! that needs a memory-lock allowance). `run` executes a closure in a forked child that has
//!   - switched to uid/gid 65534 with no supplementary groups (which also clears every capability),
//!   - RLIMIT_MEMLOCK = 0,
//!   - umask 022,
//! and returns the JSON value the closure produced. When the harness is not root only the limit and the
//! umask can be applied; `describe()` says what was in force.

use serde_json::{json, Value};

pub const NOBODY: u32 = 65534;

pub fn is_root() -> bool {
    // SAFETY: no preconditions
    unsafe { libc::geteuid() == 0 }
}

pub fn describe() -> Value {
    json!({
        "uid_gid": if is_root() { json!(NOBODY) } else { json!("unchanged (harness not run as root: ownership-dependent behaviour is not exercised)") },
        "capabilities": "none",
        "RLIMIT_MEMLOCK": 0,
        "umask": "022",
    })
}

/// Give up privileges in the calling process (irreversibly).
pub fn drop_privileges() -> Result<(), String> {
    // SAFETY: plain system calls on the calling process
    unsafe {
        let lim = libc::rlimit { rlim_cur: 0, rlim_max: 0 };
        if libc::setrlimit(libc::RLIMIT_MEMLOCK, &lim) != 0 {
            return Err("setrlimit(RLIMIT_MEMLOCK)".into());
        }
        libc::umask(0o022);
        if libc::geteuid() == 0 {
            if libc::setgroups(0, std::ptr::null()) != 0 {
                return Err("setgroups".into());
            }
            if libc::setresgid(NOBODY, NOBODY, NOBODY) != 0 {
                return Err("setresgid".into());
            }
            if libc::setresuid(NOBODY, NOBODY, NOBODY) != 0 {
                return Err("setresuid".into());
            }
            if libc::geteuid() == 0 || libc::setuid(0) == 0 {
                return Err("privileges were not dropped".into());
            }
        }
    }
    Ok(())
}

/// Run `f` in a forked, unprivileged child; its JSON result is returned. A child that dies is an Err with
/// the raw wait status; a panic inside `f` is an Err with the message.
pub fn run(f: impl FnOnce() -> Value) -> Result<Value, String> {
    run_opts(f, true, false)
}

/// As `run`; `drop_privs`: give up privileges as described above; `close_stdin`: the child has no descriptor 0
/// (a program started with `<&-`, or daemonised by hand), so the next descriptor it opens is number 0.
pub fn run_opts(f: impl FnOnce() -> Value, drop_privs: bool, close_stdin: bool) -> Result<Value, String> {
    use std::io::{Read, Write};
    use std::os::unix::io::FromRawFd;
    let _ = std::io::stdout().flush();
    let mut fds = [0i32; 2];
    // SAFETY: pipe/fork/waitpid on our own child; the child only returns through _exit
    unsafe {
        if libc::pipe(fds.as_mut_ptr()) != 0 {
            return Err("pipe".into());
        }
        let pid = libc::fork();
        if pid < 0 {
            return Err("fork".into());
        }
        if pid == 0 {
            libc::prctl(libc::PR_SET_PDEATHSIG, libc::SIGKILL);
            libc::close(fds[0]);
            if close_stdin {
                libc::close(0);
            }
            let v = match if drop_privs { drop_privileges() } else { Ok(()) } {
                Err(e) => json!({"__error": format!("cannot enter the least-privilege environment: {e}")}),
                Ok(()) => match std::panic::catch_unwind(std::panic::AssertUnwindSafe(f)) {
                    Ok(v) => v,
                    Err(p) => {
                        let m = p.downcast_ref::<&str>().map(|s| s.to_string()).or_else(|| p.downcast_ref::<String>().cloned()).unwrap_or_else(|| "panic".into());
                        json!({"__error": format!("panic in the unprivileged child: {m}")})
                    }
                },
            };
            let mut w = std::fs::File::from_raw_fd(fds[1]);
            let _ = w.write_all(serde_json::to_string(&v).unwrap().as_bytes());
            let _ = w.flush();
            drop(w);
            let _ = std::io::stdout().flush();
            let _ = std::fs::remove_dir_all(format!("/dev/shm/cbv-{}", std::process::id()));
            libc::_exit(0);
        }
        libc::close(fds[1]);
        let mut r = std::fs::File::from_raw_fd(fds[0]);
        let mut s = String::new();
        let _ = r.read_to_string(&mut s);
        let mut status = 0;
        libc::waitpid(pid, &mut status, 0);
        let _ = std::fs::remove_dir_all(format!("/dev/shm/cbv-{pid}"));
        if !libc::WIFEXITED(status) || libc::WEXITSTATUS(status) != 0 {
            if libc::WIFEXITED(status) && libc::WEXITSTATUS(status) == 2 {
                std::process::exit(2);
            }
            return Err(format!("the unprivileged child ended abnormally (raw wait status {status})"));
        }
        let v: Value = serde_json::from_str(&s).map_err(|e| format!("unparsable output from the unprivileged child: {e}"))?;
        if let Some(e) = v.get("__error").and_then(|e| e.as_str()) {
            return Err(e.to_string());
        }
        Ok(v)
    }
}
