//! The premise "one caller per reader". Every exploration in this harness drives a reader (ShmReader, and the
//! client and C handle built on it) from ONE thread, because the reader keeps private, unsynchronised state (its
//! cached record and generation) and the API enforces a single caller: `now()` takes `&mut self` and the types
//! are neither `Send` nor `Sync`. If a change makes a client usable from several threads at once - `now()`
//! callable through a shared reference AND the type `Sync` - the explorations no longer cover what a safe program
//! can do. This module finds out at compile time whether that is so (both probes compile either way), and if it
//! is, runs two threads on one shared client against a publishing writer: with a fixed clock every legal answer
//! is the answer for one of the published records; anything else is a record torn inside the client.
//! That concurrent run is free-running real threads for a bounded time - a demonstration, not an exhaustive
//! exploration (the reader's private state is not behind the explorer's hooks); it is labelled so in the
//! evidence and a verdict is only ever derived from an answer that was actually observed.

use crate::common::rec::Rec;
use crate::common::vclock;
use clock_bound_client::ClockBoundClient;
use clock_bound_shm::{ShmWrite, ShmWriter};
use serde_json::{json, Value};
use std::marker::PhantomData;

pub struct Marker;
/// Found by method resolution only when `ClockBoundClient::now` cannot be called on a `&ClockBoundClient`.
pub trait NowFallback {
    fn now(&self) -> Marker {
        Marker
    }
}
impl NowFallback for ClockBoundClient {}
pub trait Kind {
    const REAL: bool;
    fn widths(&self) -> Option<(i128, u32)> {
        None
    }
}
impl Kind for Marker {
    const REAL: bool = false;
}
impl Kind for Result<clock_bound_client::ClockBoundNowResult, clock_bound_client::ClockBoundError> {
    const REAL: bool = true;
    fn widths(&self) -> Option<(i128, u32)> {
        self.as_ref().ok().map(|n| ((crate::common::ts_to_ns(n.latest.as_ref()) - crate::common::ts_to_ns(n.earliest.as_ref())) / 2, n.clock_status as u32))
    }
}
fn is_real<K: Kind>(_: &K) -> bool {
    K::REAL
}

struct W<T>(PhantomData<T>);
trait NotSync {
    const SYNC: bool = false;
}
impl<T> NotSync for W<T> {}
#[allow(dead_code)]
impl<T: Sync> W<T> {
    const SYNC: bool = true;
}

struct Shared<'a>(&'a ClockBoundClient);
// SAFETY: only ever constructed when the probe has found `ClockBoundClient: Sync`
unsafe impl Send for Shared<'_> {}

/// (evidence, Some(description of an observed torn answer))
pub fn single_caller_premise(scratch: &std::path::Path) -> (Value, Option<String>) {
    let client_sync = <W<ClockBoundClient>>::SYNC;
    let reader_sync = <W<clock_bound_shm::ShmReader>>::SYNC;
    let path = scratch.join("apiprobe-seg");
    let _ = std::fs::remove_file(&path);
    let m: i64 = 5_000_000_000_000;
    let recs = [
        Rec { as_of_s: 4999, as_of_ns: 0, va_s: 6000, va_ns: 0, bound: 1_000_000, drift: 0, reserved: 0, status: 1 },
        Rec { as_of_s: 4000, as_of_ns: 0, va_s: 7000, va_ns: 0, bound: 9_000_000, drift: 1_000_000, reserved: 0, status: 2 },
    ];
    let mut w = match ShmWriter::new(&path) {
        Ok(w) => w,
        Err(e) => return (json!({"skipped": format!("cannot create a scratch segment: {e}")}), None),
    };
    w.write(&recs[0].to_ceb());
    let client = match ClockBoundClient::new_with_path(path.to_str().unwrap()) {
        Ok(c) => c,
        Err(e) => return (json!({"skipped": format!("cannot open the scratch segment: {:?}", e.kind)}), None),
    };
    vclock::global_arm(1_700_000_000_000_000_000, m);
    let shared_call = {
        let c: &ClockBoundClient = &client;
        let r = c.now();
        is_real(&r)
    };
    let mut ev = json!({"ClockBoundClient_is_Sync": client_sync, "ShmReader_is_Sync": reader_sync, "now_callable_through_a_shared_reference": shared_call,
        "premise_enforced_by_the_types": !(client_sync && shared_call)});
    let mut found = None;
    if client_sync && shared_call {
        // the legal answers: one per record, at the fixed clock
        let legal: Vec<(i128, u32)> = recs.iter().map(|r| { w.write(&r.to_ceb()); let c: &ClockBoundClient = &client; c.now().widths().unwrap_or((-1, 99)) }).collect();
        let stop = std::sync::atomic::AtomicBool::new(false);
        let calls = std::sync::atomic::AtomicU64::new(0);
        let bad: std::sync::Mutex<Option<(i128, u32)>> = std::sync::Mutex::new(None);
        let t0 = vclock::raw_now_s();
        std::thread::scope(|s| {
            for _ in 0..2 {
                let sh = Shared(&client);
                let (stop, calls, bad, legal) = (&stop, &calls, &bad, &legal);
                s.spawn(move || {
                    let sh = sh;
                    while !stop.load(std::sync::atomic::Ordering::Relaxed) {
                        let c: &ClockBoundClient = sh.0;
                        if let Some(a) = c.now().widths() {
                            calls.fetch_add(1, std::sync::atomic::Ordering::Relaxed);
                            if !legal.contains(&a) {
                                *bad.lock().unwrap() = Some(a);
                                stop.store(true, std::sync::atomic::Ordering::Relaxed);
                            }
                        }
                    }
                });
            }
            let mut k = 0usize;
            while !stop.load(std::sync::atomic::Ordering::Relaxed) && vclock::raw_now_s() - t0 < 4.0 {
                k += 1;
                w.write(&recs[k % 2].to_ceb());
            }
            stop.store(true, std::sync::atomic::Ordering::Relaxed);
        });
        let b = *bad.lock().unwrap();
        ev["two_threads_on_one_client"] = json!({"kind": "free-running threads for at most 4 s (a demonstration, not an exploration)", "calls": calls.load(std::sync::atomic::Ordering::Relaxed), "legal_answers_half_width_ns_and_status": legal.iter().map(|l| json!([l.0.to_string(), l.1])).collect::<Vec<_>>(), "answer_outside_them": b.map(|b| json!([b.0.to_string(), b.1]))});
        if let Some(b) = b {
            found = Some(format!("ClockBoundClient is Sync and now() can be called through a shared reference, so safe code may call it from two threads at once; doing so while the daemon alternates two records returned an interval of half-width {} ns with status {} - the answer for neither published record (those are {:?}): the client mixed fields of two records in its unsynchronised cache", b.0, b.1, legal));
        }
    }
    vclock::global_disarm();
    drop(client);
    drop(w);
    let _ = std::fs::remove_file(&path);
    (ev, found)
}
