//! Fault injection for file reads. The harness executable defines `read` itself (interposing libc's for
//! the whole process, like `clock_gettime` in vclock.rs); a thread can ask that reads of files whose
//! path ends with a marker fail with a chosen errno (the way a sysfs attribute fails: `open` succeeds,
//! `read` does not). Everything else goes straight to the system call.

use std::cell::RefCell;
use std::sync::atomic::{AtomicUsize, Ordering};

/// Called after every successful `read`/`pread` of a seekable file: (fd, file offset of the first byte,
/// buffer, bytes read). The segment explorer uses it to turn file-descriptor reads of the segment into
/// loads of the simulated shared memory (a read(2) of a MAP_SHARED file races with the daemon's stores
/// exactly like a load through the mapping does).
pub type FileReadHook = fn(fd: i32, off: i64, buf: *mut u8, n: usize);
static HOOK: AtomicUsize = AtomicUsize::new(0);
pub fn set_file_read_hook(f: FileReadHook) {
    HOOK.store(f as usize, Ordering::SeqCst);
}
fn after_read(fd: i32, off: i64, buf: *mut u8, n: isize) {
    let h = HOOK.load(Ordering::Relaxed);
    if h != 0 && off >= 0 && n > 0 {
        // SAFETY: only ever set from a FileReadHook
        let f: FileReadHook = unsafe { std::mem::transmute(h) };
        f(fd, off, buf, n as usize);
    }
}

thread_local! {
    static FAIL: RefCell<Option<(String, i32)>> = const { RefCell::new(None) };
}

thread_local! {
    /// transient failure of one system call made through libc: (call: 0 open, 1 read, 2 mmap; index of the
    /// call that fails, counted from arming; errno; calls seen so far)
    static ONCE: std::cell::Cell<Option<(u8, u32, i32, u32)>> = const { std::cell::Cell::new(None) };
}
pub const CALL_OPEN: u8 = 0;
pub const CALL_READ: u8 = 1;
pub const CALL_MMAP: u8 = 2;
/// The `nth` (0-based) call of this kind made by the calling thread from now on fails once with `errno`.
pub fn fail_call_once(call: u8, nth: u32, errno: i32) {
    ONCE.with(|o| o.set(Some((call, nth, errno, 0))));
}
pub fn clear_once() -> bool {
    ONCE.with(|o| {
        let fired = matches!(o.get(), Some((_, n, _, seen)) if seen > n);
        o.set(None);
        fired
    })
}
fn once_hits(call: u8) -> Option<i32> {
    ONCE.try_with(|o| match o.get() {
        Some((c, nth, e, seen)) if c == call => {
            o.set(Some((c, nth, e, seen + 1)));
            if seen == nth {
                Some(e)
            } else {
                None
            }
        }
        _ => None,
    })
    .unwrap_or(None)
}

thread_local! {
    /// descriptor accounting: (path suffix, descriptors this thread opened on such paths and has not closed)
    static TRACK: RefCell<Option<(String, Vec<i32>)>> = const { RefCell::new(None) };
}
/// From now on, remember every descriptor the calling thread opens on a path with this suffix until it closes it.
pub fn track_opens_of(path_suffix: &str) {
    TRACK.with(|t| *t.borrow_mut() = Some((path_suffix.to_string(), vec![])));
}
/// Ends the accounting; returns the descriptors still open (and closes them: the harness process must not run
/// out of descriptors because the code under test leaks them).
pub fn take_tracked() -> usize {
    let left = TRACK.with(|t| t.borrow_mut().take()).map(|(_, v)| v).unwrap_or_default();
    for fd in &left {
        // SAFETY: descriptors recorded by `open` below and not closed since
        unsafe { libc::syscall(libc::SYS_close, *fd) };
    }
    left.len()
}

/// Interposed over libc's (pass-through unless a transient failure is armed for this thread).
///
/// # Safety
/// Same contract as open(2).
#[no_mangle]
pub unsafe extern "C" fn open(path: *const libc::c_char, flags: libc::c_int, mode: libc::c_uint) -> libc::c_int {
    if let Some(e) = once_hits(CALL_OPEN) {
        errno::set_errno(errno::Errno(e));
        return -1;
    }
    let fd = libc::syscall(libc::SYS_openat, libc::AT_FDCWD, path, flags, mode) as libc::c_int;
    if fd >= 0 && !path.is_null() {
        let _ = TRACK.try_with(|t| {
            if let Ok(mut g) = t.try_borrow_mut() {
                if let Some((suffix, fds)) = g.as_mut() {
                    if std::ffi::CStr::from_ptr(path).to_bytes().ends_with(suffix.as_bytes()) {
                        fds.push(fd);
                    }
                }
            }
        });
    }
    fd
}

/// # Safety
/// Same contract as open(2).
#[no_mangle]
pub unsafe extern "C" fn open64(path: *const libc::c_char, flags: libc::c_int, mode: libc::c_uint) -> libc::c_int {
    open(path, flags | libc::O_LARGEFILE, mode)
}

/// Interposed over libc's for the descriptor accounting above.
///
/// # Safety
/// Same contract as close(2).
#[no_mangle]
pub unsafe extern "C" fn close(fd: libc::c_int) -> libc::c_int {
    let _ = TRACK.try_with(|t| {
        if let Ok(mut g) = t.try_borrow_mut() {
            if let Some((_, fds)) = g.as_mut() {
                fds.retain(|f| *f != fd);
            }
        }
    });
    libc::syscall(libc::SYS_close, fd) as libc::c_int
}

/// # Safety
/// Same contract as mmap(2).
#[no_mangle]
pub unsafe extern "C" fn mmap(addr: *mut libc::c_void, len: libc::size_t, prot: libc::c_int, flags: libc::c_int, fd: libc::c_int, off: libc::off_t) -> *mut libc::c_void {
    if let Some(e) = once_hits(CALL_MMAP) {
        errno::set_errno(errno::Errno(e));
        return libc::MAP_FAILED;
    }
    libc::syscall(libc::SYS_mmap, addr, len, prot, flags, fd, off) as *mut libc::c_void
}

pub fn fail_reads_of(path_suffix: &str, errno: i32) {
    FAIL.with(|f| *f.borrow_mut() = Some((path_suffix.to_string(), errno)));
}
pub fn clear() {
    FAIL.with(|f| *f.borrow_mut() = None);
}

/// Interposed over libc's.
///
/// # Safety
/// Same contract as read(2).
#[no_mangle]
pub unsafe extern "C" fn read(fd: libc::c_int, buf: *mut libc::c_void, count: libc::size_t) -> libc::ssize_t {
    if let Some(e) = once_hits(CALL_READ) {
        errno::set_errno(errno::Errno(e));
        return -1;
    }
    let armed = FAIL.try_with(|f| f.try_borrow().map(|g| g.clone()).unwrap_or(None)).unwrap_or(None);
    if let Some((suffix, errno)) = armed {
        let mut link = [0u8; 512];
        let p = format!("/proc/self/fd/{fd}\0");
        let n = libc::syscall(libc::SYS_readlinkat, libc::AT_FDCWD, p.as_ptr(), link.as_mut_ptr(), link.len());
        if n > 0 {
            let target = &link[..n as usize];
            if target.ends_with(suffix.as_bytes()) {
                errno::set_errno(errno::Errno(errno));
                return -1;
            }
        }
    }
    let off = if HOOK.load(Ordering::Relaxed) != 0 { libc::syscall(libc::SYS_lseek, fd, 0, libc::SEEK_CUR) } else { -1 };
    let n = libc::syscall(libc::SYS_read, fd, buf, count) as libc::ssize_t;
    after_read(fd, off, buf as *mut u8, n);
    n
}

/// Interposed over libc's (positional reads of the segment are shared-memory loads as well).
///
/// # Safety
/// Same contract as pread(2).
#[no_mangle]
pub unsafe extern "C" fn pread64(fd: libc::c_int, buf: *mut libc::c_void, count: libc::size_t, offset: libc::off64_t) -> libc::ssize_t {
    let n = libc::syscall(libc::SYS_pread64, fd, buf, count, offset) as libc::ssize_t;
    after_read(fd, offset, buf as *mut u8, n);
    n
}

/// # Safety
/// Same contract as pread(2).
#[no_mangle]
pub unsafe extern "C" fn pread(fd: libc::c_int, buf: *mut libc::c_void, count: libc::size_t, offset: libc::off_t) -> libc::ssize_t {
    pread64(fd, buf, count, offset)
}
