//! Fault injection for file reads. The harness executable defines `read` itself (interposing libc's for
//! the whole process, like `clock_gettime` in vclock.rs); a thread can ask that reads of files whose
//! path ends with a marker fail with a chosen errno (the way a sysfs attribute fails: `open` succeeds,
//! `read` does not). Everything else goes straight to the system call.

use std::cell::RefCell;

thread_local! {
    static FAIL: RefCell<Option<(String, i32)>> = const { RefCell::new(None) };
}

pub fn fail_reads_of(path_suffix: &str, errno: i32) {
    FAIL.with(|f| *f.borrow_mut() = Some((path_suffix.to_string(), errno)));
}
pub fn clear() {
    FAIL.with(|f| *f.borrow_mut() = None);
}

/// Interposed over libc's.
///
/// # Safety
/// Same contract as read(2).
#[no_mangle]
pub unsafe extern "C" fn read(fd: libc::c_int, buf: *mut libc::c_void, count: libc::size_t) -> libc::ssize_t {
    let armed = FAIL.try_with(|f| f.try_borrow().map(|g| g.clone()).unwrap_or(None)).unwrap_or(None);
    if let Some((suffix, errno)) = armed {
        let mut link = [0u8; 512];
        let p = format!("/proc/self/fd/{fd}\0");
        let n = libc::syscall(libc::SYS_readlinkat, libc::AT_FDCWD, p.as_ptr(), link.as_mut_ptr(), link.len());
        if n > 0 {
            let target = &link[..n as usize];
            if target.ends_with(suffix.as_bytes()) {
                errno::set_errno(errno::Errno(errno));
                return -1;
            }
        }
    }
    libc::syscall(libc::SYS_read, fd, buf, count) as libc::ssize_t
}
