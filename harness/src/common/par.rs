//! Minimal data-parallel map over an index range (std threads, dynamic chunking).
use std::sync::atomic::{AtomicUsize, Ordering};

pub fn threads() -> usize {
    std::env::var("VERIF_THREADS")
        .ok()
        .and_then(|s| s.parse().ok())
        .unwrap_or_else(|| std::thread::available_parallelism().map(|n| n.get()).unwrap_or(4))
        .max(1)
}

/// Run `f(i)` for every i in 0..n on a pool of threads; results are returned in index order.
pub fn map<T: Send, F: Fn(usize) -> T + Sync>(n: usize, f: F) -> Vec<T> {
    let next = AtomicUsize::new(0);
    let nt = threads().min(n.max(1));
    let mut parts: Vec<Vec<(usize, T)>> = std::thread::scope(|s| {
        let hs: Vec<_> = (0..nt)
            .map(|_| {
                s.spawn(|| {
                    let mut out = Vec::new();
                    loop {
                        let i = next.fetch_add(1, Ordering::Relaxed);
                        if i >= n {
                            break;
                        }
                        out.push((i, f(i)));
                    }
                    out
                })
            })
            .collect();
        hs.into_iter()
            .map(|h| match h.join() {
                Ok(v) => v,
                Err(e) => std::panic::resume_unwind(e),
            })
            .collect()
    });
    let mut all: Vec<(usize, T)> = parts.drain(..).flatten().collect();
    all.sort_by_key(|x| x.0);
    all.into_iter().map(|x| x.1).collect()
}

/// Process-parallel reduce: fork `nproc` children; each repeatedly takes the next index from a shared
/// counter and folds it into its own accumulator; at the end every child serialises its accumulator
/// to the parent. Used where the work is dominated by mmap/munmap/open (kernel locks that are per
/// process: threads do not scale there, processes do). Must be called while single-threaded.
pub fn fork_reduce<A>(n: usize, init: impl Fn(usize) -> A, step: impl Fn(&mut A, usize), ser: impl Fn(A) -> serde_json::Value) -> Vec<serde_json::Value> {
    fork_reduce_ex(n, init, step, ser)
        .into_iter()
        .map(|r| match r {
            Ok(v) => v,
            Err((idx, status)) => super::report::machinery_failure(&format!("worker process ended abnormally (raw status {status}) while working on item {idx}")),
        })
        .collect()
}

/// As `fork_reduce`, but a worker that dies (signal, abort, non-zero exit) is reported as
/// Err((index of the item it was working on, raw wait status)) instead of stopping the run.
pub fn fork_reduce_ex<A>(n: usize, init: impl Fn(usize) -> A, step: impl Fn(&mut A, usize), ser: impl Fn(A) -> serde_json::Value) -> Vec<Result<serde_json::Value, (usize, i32)>> {
    use std::io::{Read, Write};
    use std::os::unix::io::FromRawFd;
    let nproc = threads().min(n.max(1)).min(256);
    // shared work counter
    // SAFETY: anonymous shared mapping of one page, used as an AtomicUsize by parent and children
    let counter = unsafe {
        let p = libc::mmap(std::ptr::null_mut(), 4096, libc::PROT_READ | libc::PROT_WRITE, libc::MAP_SHARED | libc::MAP_ANONYMOUS, -1, 0);
        assert!(p != libc::MAP_FAILED);
        &*(p as *const AtomicUsize)
    };
    counter.store(0, Ordering::SeqCst);
    let _ = std::io::stdout().flush();
    let mut kids = vec![];
    for c in 0..nproc {
        let mut fds = [0i32; 2];
        // SAFETY: plain pipe/fork
        unsafe {
            assert_eq!(libc::pipe(fds.as_mut_ptr()), 0);
            let pid = libc::fork();
            assert!(pid >= 0, "fork failed");
            if pid == 0 {
                // die with the parent (its watchdog may give up on a run that hangs)
                libc::prctl(libc::PR_SET_PDEATHSIG, libc::SIGKILL);
                libc::close(fds[0]);
                let mut acc = init(c);
                // SAFETY: slot c+1 of the shared page (nproc <= 256 < 512 slots)
                let progress = &*((counter as *const AtomicUsize).add(c + 1));
                loop {
                    let i = counter.fetch_add(1, Ordering::SeqCst);
                    if i >= n {
                        break;
                    }
                    progress.store(i + 1, Ordering::SeqCst);
                    step(&mut acc, i);
                }
                progress.store(0, Ordering::SeqCst);
                let v = ser(acc);
                let mut f = std::fs::File::from_raw_fd(fds[1]);
                let _ = f.write_all(serde_json::to_string(&v).unwrap().as_bytes());
                let _ = f.flush();
                drop(f);
                let _ = std::io::stdout().flush();
                libc::_exit(0);
            }
            libc::close(fds[1]);
            kids.push((pid, fds[0]));
        }
    }
    let readers: Vec<_> = kids
        .iter()
        .map(|(_, fd)| {
            let fd = *fd;
            std::thread::spawn(move || {
                // SAFETY: fd is the read end of a pipe owned by this thread from now on
                let mut f = unsafe { std::fs::File::from_raw_fd(fd) };
                let mut s = String::new();
                let _ = f.read_to_string(&mut s);
                s
            })
        })
        .collect();
    let mut out = vec![];
    let outputs: Vec<String> = readers.into_iter().map(|h| h.join().unwrap_or_default()).collect();
    for (c, ((pid, _), s)) in kids.iter().zip(outputs).enumerate() {
        let mut status = 0;
        // SAFETY: waiting for our own child
        unsafe { libc::waitpid(*pid, &mut status, 0) };
        if !libc::WIFEXITED(status) || libc::WEXITSTATUS(status) != 0 {
            if libc::WIFEXITED(status) && libc::WEXITSTATUS(status) == 2 {
                // the worker reported a machinery failure itself (message already printed)
                std::process::exit(2);
            }
            // SAFETY: slot c+1 of the shared page
            let at = unsafe { (*((counter as *const AtomicUsize).add(c + 1))).load(Ordering::SeqCst) };
            out.push(Err((at.saturating_sub(1), status)));
            continue;
        }
        match serde_json::from_str(&s) {
            Ok(v) => out.push(Ok(v)),
            Err(e) => super::report::machinery_failure(&format!("worker process returned unparsable output: {e}")),
        }
    }
    // SAFETY: unmapping the page mapped above
    unsafe { libc::munmap(counter as *const AtomicUsize as *mut libc::c_void, 4096) };
    out
}

/// Run `f` in a forked child and wait at most `secs` seconds of real time for the JSON value it produces.
/// Err("timeout") if it has not finished by then (the child is killed), Err(other) if it died.
pub fn run_with_timeout(secs: u64, f: impl FnOnce() -> serde_json::Value) -> Result<serde_json::Value, String> {
    use std::io::{Read, Write};
    use std::os::unix::io::FromRawFd;
    let _ = std::io::stdout().flush();
    let mut fds = [0i32; 2];
    // SAFETY: pipe/fork/poll/kill/waitpid on our own child
    unsafe {
        if libc::pipe(fds.as_mut_ptr()) != 0 {
            return Err("pipe".into());
        }
        let pid = libc::fork();
        if pid < 0 {
            return Err("fork".into());
        }
        if pid == 0 {
            libc::prctl(libc::PR_SET_PDEATHSIG, libc::SIGKILL);
            libc::close(fds[0]);
            let v = match std::panic::catch_unwind(std::panic::AssertUnwindSafe(f)) {
                Ok(v) => v,
                Err(_) => serde_json::json!({"__panic": true}),
            };
            let mut w = std::fs::File::from_raw_fd(fds[1]);
            let _ = w.write_all(serde_json::to_string(&v).unwrap().as_bytes());
            let _ = w.flush();
            drop(w);
            libc::_exit(0);
        }
        libc::close(fds[1]);
        let mut pfd = libc::pollfd { fd: fds[0], events: libc::POLLIN | libc::POLLHUP, revents: 0 };
        let mut buf = Vec::new();
        let t0 = super::vclock::raw_now_s();
        let mut timed_out = false;
        let mut r = std::fs::File::from_raw_fd(fds[0]);
        loop {
            let left = secs as f64 - (super::vclock::raw_now_s() - t0);
            if left <= 0.0 {
                timed_out = true;
                break;
            }
            let n = libc::poll(&mut pfd, 1, (left * 1000.0) as i32 + 1);
            if n > 0 {
                let mut chunk = [0u8; 65536];
                match r.read(&mut chunk) {
                    Ok(0) => break,
                    Ok(k) => buf.extend_from_slice(&chunk[..k]),
                    Err(_) => break,
                }
            }
        }
        if timed_out {
            libc::kill(pid, libc::SIGKILL);
        }
        let mut status = 0;
        libc::waitpid(pid, &mut status, 0);
        let _ = std::fs::remove_dir_all(format!("/dev/shm/cbv-{pid}"));
        if timed_out {
            return Err("timeout".into());
        }
        if !libc::WIFEXITED(status) || libc::WEXITSTATUS(status) != 0 {
            return Err(format!("child ended abnormally (raw wait status {status})"));
        }
        serde_json::from_slice(&buf).map_err(|e| format!("unparsable child output: {e}"))
    }
}
