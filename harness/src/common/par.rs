//! Minimal data-parallel map over an index range (std threads, dynamic chunking).
use std::sync::atomic::{AtomicUsize, Ordering};

pub fn threads() -> usize {
    std::env::var("VERIF_THREADS")
        .ok()
        .and_then(|s| s.parse().ok())
        .unwrap_or_else(|| std::thread::available_parallelism().map(|n| n.get()).unwrap_or(4))
        .max(1)
}

/// Run `f(i)` for every i in 0..n on a pool of threads; results are returned in index order.
pub fn map<T: Send, F: Fn(usize) -> T + Sync>(n: usize, f: F) -> Vec<T> {
    let next = AtomicUsize::new(0);
    let nt = threads().min(n.max(1));
    let mut parts: Vec<Vec<(usize, T)>> = std::thread::scope(|s| {
        let hs: Vec<_> = (0..nt)
            .map(|_| {
                s.spawn(|| {
                    let mut out = Vec::new();
                    loop {
                        let i = next.fetch_add(1, Ordering::Relaxed);
                        if i >= n {
                            break;
                        }
                        out.push((i, f(i)));
                    }
                    out
                })
            })
            .collect();
        hs.into_iter()
            .map(|h| match h.join() {
                Ok(v) => v,
                Err(e) => std::panic::resume_unwind(e),
            })
            .collect()
    });
    let mut all: Vec<(usize, T)> = parts.drain(..).flatten().collect();
    all.sort_by_key(|x| x.0);
    all.into_iter().map(|x| x.1).collect()
}
