pub mod apiprobe;
pub mod iofault;
pub mod par;
pub mod privdrop;
pub mod rec;
pub mod report;
pub mod vclock;

/// (open file descriptors, memory mappings) of the calling process, from /proc/self.
pub fn resources() -> (usize, usize) {
    let fds = std::fs::read_dir("/proc/self/fd").map(|d| d.count().saturating_sub(1)).unwrap_or(0);
    let maps = std::fs::read_to_string("/proc/self/maps").map(|s| s.lines().count()).unwrap_or(0);
    (fds, maps)
}

/// Exact integer helpers shared by the reference models.
pub fn ts_ns(sec: i64, nsec: i64) -> i128 {
    sec as i128 * 1_000_000_000 + nsec as i128
}
pub fn ns_ts(ns: i128) -> libc::timespec {
    libc::timespec { tv_sec: ns.div_euclid(1_000_000_000) as i64, tv_nsec: ns.rem_euclid(1_000_000_000) as i64 }
}
pub fn ts_to_ns(t: &libc::timespec) -> i128 {
    ts_ns(t.tv_sec, t.tv_nsec)
}
