//! Plain-data view of a ClockErrorBound (its fields are private; the struct is #[repr(C)], 56 bytes,
//! the last 4 of which are padding and must never be compared).
use clock_bound_shm::{ClockErrorBound, ClockStatus};
use serde_json::{json, Value};

#[derive(Clone, Copy, Debug, PartialEq, Eq, Hash, PartialOrd, Ord)]
pub struct Rec {
    pub as_of_s: i64,
    pub as_of_ns: i64,
    pub va_s: i64,
    pub va_ns: i64,
    pub bound: i64,
    pub drift: u32,
    pub reserved: u32,
    pub status: u32,
}

pub const REC_SIZE: usize = 56;

impl Rec {
    pub fn to_ceb(&self) -> ClockErrorBound {
        ClockErrorBound::new(
            libc::timespec { tv_sec: self.as_of_s, tv_nsec: self.as_of_ns },
            libc::timespec { tv_sec: self.va_s, tv_nsec: self.va_ns },
            self.bound,
            self.drift,
            self.reserved,
            status_of(self.status),
        )
    }
    pub fn from_ceb(c: &ClockErrorBound) -> Rec {
        assert_eq!(std::mem::size_of::<ClockErrorBound>(), REC_SIZE);
        // SAFETY: ClockErrorBound is repr(C), 56 bytes, plain data
        let b = unsafe { std::slice::from_raw_parts(c as *const ClockErrorBound as *const u8, REC_SIZE) };
        Rec::from_bytes(b)
    }
    pub fn from_bytes(b: &[u8]) -> Rec {
        let i64_at = |o: usize| i64::from_ne_bytes(b[o..o + 8].try_into().unwrap());
        let u32_at = |o: usize| u32::from_ne_bytes(b[o..o + 4].try_into().unwrap());
        Rec {
            as_of_s: i64_at(0),
            as_of_ns: i64_at(8),
            va_s: i64_at(16),
            va_ns: i64_at(24),
            bound: i64_at(32),
            drift: u32_at(40),
            reserved: u32_at(44),
            status: u32_at(48),
        }
    }
    pub fn json(&self) -> Value {
        json!({"as_of": [self.as_of_s, self.as_of_ns], "void_after": [self.va_s, self.va_ns], "bound_nsec": self.bound,
               "max_drift_ppb": self.drift, "reserved": self.reserved, "status": self.status})
    }
    pub fn from_json(v: &Value) -> Rec {
        Rec {
            as_of_s: v["as_of"][0].as_i64().unwrap(),
            as_of_ns: v["as_of"][1].as_i64().unwrap(),
            va_s: v["void_after"][0].as_i64().unwrap(),
            va_ns: v["void_after"][1].as_i64().unwrap(),
            bound: v["bound_nsec"].as_i64().unwrap(),
            drift: v["max_drift_ppb"].as_u64().unwrap() as u32,
            reserved: v["reserved"].as_u64().unwrap_or(0) as u32,
            status: v["status"].as_u64().unwrap() as u32,
        }
    }
}

pub fn status_of(s: u32) -> ClockStatus {
    match s {
        1 => ClockStatus::Synchronized,
        2 => ClockStatus::FreeRunning,
        _ => ClockStatus::Unknown,
    }
}
pub fn status_num(s: ClockStatus) -> u32 {
    match s {
        ClockStatus::Unknown => 0,
        ClockStatus::Synchronized => 1,
        ClockStatus::FreeRunning => 2,
    }
}
pub fn status_name(s: u32) -> &'static str {
    match s {
        0 => "Unknown",
        1 => "Synchronized",
        2 => "FreeRunning",
        _ => "?",
    }
}
