//! Evidence files, replay files, known findings, exit protocol.
use serde_json::{json, Map, Value};
use std::path::PathBuf;

#[derive(Clone, Copy, PartialEq, Eq, Debug)]
pub enum Tier {
    Quick,
    Thorough,
}

impl Tier {
    pub fn name(self) -> &'static str {
        match self {
            Tier::Quick => "quick",
            Tier::Thorough => "thorough",
        }
    }
    pub fn pick<T>(self, quick: T, thorough: T) -> T {
        match self {
            Tier::Quick => quick,
            Tier::Thorough => thorough,
        }
    }
}

pub struct Ctx {
    pub prop: String,
    pub tier: Tier,
    pub seed: i64,
    pub t0: f64,
    pub verif_dir: PathBuf,
    pub repo_dir: PathBuf,
    pub replay: Option<PathBuf>,
    /// free-form engine options (`--opt key=value`)
    pub opts: Vec<(String, String)>,
}

impl Ctx {
    pub fn opt(&self, key: &str) -> Option<&str> {
        self.opts.iter().rev().find(|(k, _)| k == key).map(|(_, v)| v.as_str())
    }
    pub fn opt_usize(&self, key: &str) -> Option<usize> {
        self.opt(key).and_then(|v| v.parse().ok())
    }
    pub fn wall(&self) -> f64 {
        super::vclock::raw_now_s() - self.t0
    }
    /// Scratch directory on tmpfs for segment files, removed by `cleanup_scratch`.
    pub fn scratch(&self) -> PathBuf {
        let d = PathBuf::from(format!("/dev/shm/cbv-{}", std::process::id()));
        let _ = std::fs::create_dir_all(&d);
        d
    }
    pub fn cleanup_scratch(&self) {
        let _ = std::fs::remove_dir_all(format!("/dev/shm/cbv-{}", std::process::id()));
    }
}

#[derive(Clone, Debug)]
pub struct Violation {
    /// narrow class of the failing input / history (matched against known_findings.json)
    pub signature: String,
    /// one-line explanation
    pub text: String,
    /// everything needed to re-execute the case
    pub replay: Value,
}

pub struct Known {
    entries: Vec<Value>,
}

impl Known {
    pub fn load(ctx: &Ctx) -> Known {
        let p = ctx.verif_dir.join("known_findings.json");
        let entries = match std::fs::read_to_string(&p) {
            Ok(s) => match serde_json::from_str::<Value>(&s) {
                Ok(Value::Object(o)) => o.get("findings").and_then(|f| f.as_array()).cloned().unwrap_or_default(),
                Ok(Value::Array(a)) => a,
                _ => machinery_failure(&format!("cannot parse {}", p.display())),
            },
            Err(_) => vec![],
        };
        Known { entries }
    }
    /// A `known` (not `fixed`) entry for this property that lists this signature.
    pub fn matching(&self, prop: &str, signature: &str) -> Option<&Value> {
        self.entries.iter().find(|e| {
            e["property"] == prop
                && e["status"] == "known"
                && e["signatures"].as_array().map(|a| a.iter().any(|s| s == signature)).unwrap_or(false)
        })
    }
}

pub fn machinery_failure(msg: &str) -> ! {
    println!("MACHINERY-FAILURE: {msg}");
    let _ = std::io::Write::flush(&mut std::io::stdout());
    std::process::exit(2)
}

pub struct Outcome {
    pub level: &'static str,
    pub coverage: Map<String, Value>,
    pub assumptions: Vec<String>,
    pub violations: Vec<Violation>,
}

/// Write the evidence file, report violations / known findings, and return the exit code.
pub fn finish(ctx: &Ctx, out: Outcome) -> i32 {
    let known = Known::load(ctx);
    let mut unlisted: Vec<&Violation> = vec![];
    let mut known_hits: Vec<(String, String, usize)> = vec![]; // (entry id, text, count)
    for v in &out.violations {
        match known.matching(&ctx.prop, &v.signature) {
            Some(e) => {
                let id = e["id"].as_str().unwrap_or("?").to_string();
                match known_hits.iter_mut().find(|h| h.0 == id) {
                    Some(h) => h.2 += 1,
                    None => known_hits.push((id, e["text"].as_str().unwrap_or("").to_string(), 1)),
                }
            }
            None => unlisted.push(v),
        }
    }
    let mut coverage = out.coverage.clone();
    coverage.insert("known_finding_hits".into(), json!(known_hits.iter().map(|h| json!({"id": h.0, "count": h.2})).collect::<Vec<_>>()));
    let ev = json!({
        "property_id": ctx.prop,
        "tier": ctx.tier.name(),
        "seed": ctx.seed,
        "level": out.level,
        "coverage": Value::Object(coverage),
        "assumptions": out.assumptions,
        "wall_s": (ctx.wall() * 1000.0).round() / 1000.0,
        "violations": unlisted.len(),
    });
    let evdir = std::env::var("VERIF_EVIDENCE_DIR").map(std::path::PathBuf::from).unwrap_or_else(|_| ctx.verif_dir.join("evidence"));
    let _ = std::fs::create_dir_all(&evdir);
    let evpath = evdir.join(format!("{}.json", ctx.prop));
    if let Err(e) = std::fs::write(&evpath, serde_json::to_string_pretty(&ev).unwrap() + "\n") {
        machinery_failure(&format!("cannot write {}: {e}", evpath.display()));
    }
    for h in &known_hits {
        println!("KNOWN-FINDING: property={} {} [{} — {} occurrence(s) in this run]", ctx.prop, h.1, h.0, h.2);
    }
    if unlisted.is_empty() {
        let capped = ev["coverage"]["capped"].as_bool().unwrap_or(false);
        println!("OK property={} tier={} wall={:.1}s{} evidence={}", ctx.prop, ctx.tier.name(), ctx.wall(), if capped { " search=capped-by-time-budget(see evidence)" } else { "" }, evpath.display());
        return 0;
    }
    let rdir = std::env::var("VERIF_EVIDENCE_DIR").map(|d| std::path::PathBuf::from(d).join("replays")).unwrap_or_else(|_| ctx.verif_dir.join("replays"));
    let _ = std::fs::create_dir_all(&rdir);
    // one replay file per distinct signature (first = simplest, searches are ordered simplest-first)
    let mut seen: Vec<&str> = vec![];
    for v in &unlisted {
        if seen.contains(&v.signature.as_str()) {
            continue;
        }
        seen.push(&v.signature);
        if seen.len() > 8 {
            break;
        }
        let name: String = v.signature.chars().map(|c| if c.is_ascii_alphanumeric() || c == '-' || c == '_' { c } else { '_' }).take(80).collect();
        let p = rdir.join(format!("{}-{}.json", ctx.prop, name));
        let doc = json!({"property": ctx.prop, "signature": v.signature, "explanation": v.text, "tier": ctx.tier.name(), "case": v.replay});
        if let Err(e) = std::fs::write(&p, serde_json::to_string_pretty(&doc).unwrap() + "\n") {
            machinery_failure(&format!("cannot write {}: {e}", p.display()));
        }
        println!("  {} :: {}", v.signature, v.text);
        println!("VIOLATION property={} replay={}", ctx.prop, p.display());
    }
    println!("{} unlisted violation(s) in {} distinct classes", unlisted.len(), seen.len());
    1
}

pub fn cov(pairs: Vec<(&str, Value)>) -> Map<String, Value> {
    let mut m = Map::new();
    for (k, v) in pairs {
        m.insert(k.to_string(), v);
    }
    m
}

/// Panics of the code under test are caught and judged by the engines; their default message on stderr is
/// noise (and stderr is /dev/full anyway). VERIF_DEBUG_PANICS=1 keeps the default hook and prints to stdout.
pub fn quiet_panics() {
    if std::env::var_os("VERIF_DEBUG_PANICS").is_some() {
        std::panic::set_hook(Box::new(|info| println!("PANIC: {info}")));
    } else {
        std::panic::set_hook(Box::new(|_| {}));
    }
}
