//! Virtual time. The harness executable defines `clock_gettime` itself, which interposes libc's
//! for the whole process: `libc::clock_gettime` (hence clock-bound's `clock_gettime_safe`),
//! `std::time::Instant`, `std::time::SystemTime`. A thread that has not armed a virtual clock (and
//! while no global one is armed) gets the real clock through the raw system call.

use std::cell::{Cell, RefCell};
use std::sync::atomic::{AtomicBool, AtomicI64, Ordering};

pub const NS: i128 = 1_000_000_000;

#[derive(Clone, Copy, Debug, Default)]
pub struct VClock {
    /// CLOCK_REALTIME reading in ns
    pub real_ns: i128,
    /// CLOCK_MONOTONIC / _COARSE / _RAW / BOOTTIME reading in ns
    pub mono_ns: i128,
    /// both clocks advance by this much after every read
    pub auto_advance_ns: i64,
    /// if non-zero, clock_gettime fails with this errno
    pub fail_errno: i32,
    /// fail only reads of this clock id (-1: all; -2: every clock of the monotonic family) when fail_errno is set
    pub fail_clock: i32,
}

thread_local! {
    static ARMED: Cell<bool> = const { Cell::new(false) };
    static CLK: Cell<VClock> = const { Cell::new(VClock { real_ns: 0, mono_ns: 0, auto_advance_ns: 0, fail_errno: 0, fail_clock: -1 }) };
    /// transient failure: (clock id or -1 for any, index of the matching read that fails, errno, matching reads so far)
    static FAIL_ONCE: Cell<Option<(i32, u32, i32, u32)>> = const { Cell::new(None) };
    /// (reads of any clock still to come before it fires, what happens while that read is in progress)
    static AT_READ: RefCell<Option<(u32, Box<dyn FnOnce()>)>> = const { RefCell::new(None) };
    static LOG_ON: Cell<bool> = const { Cell::new(false) };
    static LOG: RefCell<Vec<(i32, i128)>> = const { RefCell::new(Vec::new()) };
}

// process-global clock (used by the thread explorer, where the code under test runs on its own threads)
static G_ARMED: AtomicBool = AtomicBool::new(false);
static G_REAL: AtomicI64 = AtomicI64::new(0);
static G_MONO: AtomicI64 = AtomicI64::new(0);

/// Make exactly one read fail: the `nth` (0-based, counted from now) read of clock `clk` (-1: of any clock)
/// returns -1 with `errno`; every other read succeeds. Cleared by `arm`/`disarm`.
pub fn fail_once(clk: i32, nth: u32, errno: i32) {
    FAIL_ONCE.with(|f| f.set(Some((clk, nth, errno, 0))));
}
/// true if the armed transient failure has been delivered
pub fn fail_once_fired() -> bool {
    FAIL_ONCE.with(|f| matches!(f.get(), Some((_, n, _, seen)) if seen > n))
}

/// While the `nth` (0-based, counted from now) read of any clock by the calling thread is in progress, `f` runs
/// (something else in the system makes progress at that moment: a publication lands). Cleared by `disarm`.
pub fn at_read(nth: u32, f: Box<dyn FnOnce()>) {
    AT_READ.with(|a| *a.borrow_mut() = Some((nth, f)));
}

pub fn arm(c: VClock) {
    FAIL_ONCE.with(|f| f.set(None));
    CLK.with(|k| k.set(c));
    ARMED.with(|a| a.set(true));
}
pub fn disarm() {
    AT_READ.with(|a| *a.borrow_mut() = None);
    FAIL_ONCE.with(|f| f.set(None));
    ARMED.with(|a| a.set(false));
}
pub fn get() -> VClock {
    CLK.with(|k| k.get())
}
pub fn set(c: VClock) {
    CLK.with(|k| k.set(c));
}
pub fn set_times(real_ns: i128, mono_ns: i128) {
    CLK.with(|k| {
        let mut c = k.get();
        c.real_ns = real_ns;
        c.mono_ns = mono_ns;
        k.set(c)
    });
}
pub fn advance(ns: i128) {
    CLK.with(|k| {
        let mut c = k.get();
        c.real_ns += ns;
        c.mono_ns += ns;
        k.set(c)
    });
}
pub fn log_start() {
    LOG.with(|l| l.borrow_mut().clear());
    LOG_ON.with(|l| l.set(true));
}
/// Insert a marker (clock id -100) into the read log (e.g. "the request to chronyd was issued here").
pub fn log_mark() {
    if LOG_ON.with(|l| l.get()) {
        LOG.with(|l| {
            if let Ok(mut l) = l.try_borrow_mut() {
                l.push((-100, 0))
            }
        });
    }
}
pub fn log_take() -> Vec<(i32, i128)> {
    LOG_ON.with(|l| l.set(false));
    LOG.with(|l| std::mem::take(&mut *l.borrow_mut()))
}

pub fn global_arm(real_ns: i64, mono_ns: i64) {
    G_REAL.store(real_ns, Ordering::SeqCst);
    G_MONO.store(mono_ns, Ordering::SeqCst);
    G_ARMED.store(true, Ordering::SeqCst);
}
pub fn global_disarm() {
    G_ARMED.store(false, Ordering::SeqCst);
}
pub fn global_advance(ns: i64) {
    G_REAL.fetch_add(ns, Ordering::SeqCst);
    G_MONO.fetch_add(ns, Ordering::SeqCst);
}
pub fn global_mono() -> i64 {
    G_MONO.load(Ordering::SeqCst)
}

fn is_real(clk: libc::clockid_t) -> bool {
    clk == libc::CLOCK_REALTIME || clk == libc::CLOCK_REALTIME_COARSE || clk == libc::CLOCK_TAI
}

/// CLOCK_TAI is the realtime clock plus the kernel's TAI-UTC offset: 37 s since 2017 wherever anything
/// (chronyd with a leap-second table, ntpd, adjtimex) has set it. Time stamps that come from outside
/// (chronyd's reference time) are UTC, so code that mixes the two is off by this much.
pub const TAI_OFFSET_NS: i128 = 37 * NS;
/// CLOCK_REALTIME_COARSE returns the realtime clock as of the last timer tick: up to 4 ms (HZ=250) behind the
/// precise clock, 3 ms here. The client's interval is stated around the *system clock reading*
/// (clock_gettime(CLOCK_REALTIME)); code that centres it on the coarse clock is off by the lag. (The coarse
/// *monotonic* clock is the one the design uses on both sides, consistently; it is served without lag so that
/// the reference models, which are stated in terms of the readings, stay exact.)
pub const REALTIME_COARSE_LAG_NS: i128 = 3_000_000;
fn scale_offset(clk: libc::clockid_t) -> i128 {
    if clk == libc::CLOCK_TAI {
        TAI_OFFSET_NS
    } else if clk == libc::CLOCK_REALTIME_COARSE {
        -REALTIME_COARSE_LAG_NS
    } else {
        0
    }
}

/// CLOCK_BOOTTIME is the monotonic clock plus the time the host has spent suspended (a paused VM, a
/// hibernated instance): one hour here. The daemon stamps its records with the monotonic clock, so a
/// client that measures their age with the boot-time clock is off by this much.
pub const SUSPENDED_NS: i128 = 3600 * NS;
fn mono_offset(clk: libc::clockid_t) -> i128 {
    if clk == libc::CLOCK_BOOTTIME || clk == libc::CLOCK_BOOTTIME_ALARM {
        SUSPENDED_NS
    } else {
        0
    }
}

fn put(ts: *mut libc::timespec, ns: i128) {
    let sec = ns.div_euclid(NS);
    let nsec = ns.rem_euclid(NS);
    // SAFETY: caller passed a valid pointer (contract of clock_gettime)
    unsafe {
        (*ts).tv_sec = sec as libc::time_t;
        (*ts).tv_nsec = nsec as libc::c_long;
    }
}

/// The real wall clock in seconds (raw system call).
pub fn raw_real_s() -> f64 {
    let mut ts = libc::timespec { tv_sec: 0, tv_nsec: 0 };
    // SAFETY: plain system call with a valid pointer
    unsafe { libc::syscall(libc::SYS_clock_gettime, libc::CLOCK_REALTIME, &mut ts as *mut libc::timespec) };
    ts.tv_sec as f64 + ts.tv_nsec as f64 / 1e9
}

/// The real clock, for the harness's own wall-time measurements.
pub fn raw_now_s() -> f64 {
    let mut ts = libc::timespec { tv_sec: 0, tv_nsec: 0 };
    // SAFETY: plain system call with a valid pointer
    unsafe { libc::syscall(libc::SYS_clock_gettime, libc::CLOCK_MONOTONIC, &mut ts as *mut libc::timespec) };
    ts.tv_sec as f64 + ts.tv_nsec as f64 / 1e9
}

/// Interposed over libc's.
///
/// # Safety
/// `ts` must be valid for writes, as for the libc function.
#[no_mangle]
pub unsafe extern "C" fn clock_gettime(clk: libc::clockid_t, ts: *mut libc::timespec) -> libc::c_int {
    let armed = ARMED.try_with(|a| a.get()).unwrap_or(false);
    if armed {
        let due = AT_READ.with(|a| {
            let mut g = a.borrow_mut();
            match g.as_mut() {
                Some((0, _)) => g.take().map(|(_, f)| f),
                Some((n, _)) => {
                    *n -= 1;
                    None
                }
                None => None,
            }
        });
        if let Some(f) = due {
            f();
        }
        let mut c = CLK.with(|k| k.get());
        if c.fail_errno != 0 && (c.fail_clock == -1 || c.fail_clock == clk || (c.fail_clock == -2 && !is_real(clk))) {
            errno::set_errno(errno::Errno(c.fail_errno));
            return -1;
        }
        if let Some((fc, nth, e, seen)) = FAIL_ONCE.with(|f| f.get()) {
            if fc < 0 || fc == clk {
                FAIL_ONCE.with(|f| f.set(Some((fc, nth, e, seen + 1))));
                if seen == nth {
                    if LOG_ON.with(|l| l.get()) {
                        LOG.with(|l| {
                            if let Ok(mut l) = l.try_borrow_mut() {
                                l.push((-200 - clk, 0))
                            }
                        });
                    }
                    errno::set_errno(errno::Errno(e));
                    return -1;
                }
            }
        }
        let v = if is_real(clk) { c.real_ns + scale_offset(clk) } else { c.mono_ns + mono_offset(clk) };
        put(ts, v);
        if LOG_ON.with(|l| l.get()) {
            LOG.with(|l| {
                if let Ok(mut l) = l.try_borrow_mut() {
                    l.push((clk, v))
                }
            });
        }
        if c.auto_advance_ns != 0 {
            c.real_ns += c.auto_advance_ns as i128;
            c.mono_ns += c.auto_advance_ns as i128;
            CLK.with(|k| k.set(c));
        }
        return 0;
    }
    if G_ARMED.load(Ordering::Relaxed) {
        let v = if is_real(clk) { G_REAL.load(Ordering::SeqCst) as i128 + scale_offset(clk) } else { G_MONO.load(Ordering::SeqCst) as i128 + mono_offset(clk) };
        put(ts, v);
        return 0;
    }
    libc::syscall(libc::SYS_clock_gettime, clk, ts) as libc::c_int
}

/// The kernel's NTP discipline state as a production host with a running chronyd has it: synchronised
/// (TIME_OK, STA_UNSYNC clear, small maxerror). The sandbox's own kernel says TIME_ERROR / unsynchronised,
/// which is the one answer under which code that consults it keeps its fallback behaviour. Queries only
/// (modes == 0); anything that tries to *set* goes to the real call.
///
/// # Safety
/// Same contract as adjtimex(2).
#[no_mangle]
pub unsafe extern "C" fn adjtimex(buf: *mut libc::timex) -> libc::c_int {
    if buf.is_null() || (*buf).modes != 0 {
        return libc::syscall(libc::SYS_adjtimex, buf) as libc::c_int;
    }
    std::ptr::write_bytes(buf, 0, 1);
    (*buf).status = 0x2001; // STA_PLL | STA_NANO
    (*buf).maxerror = 50_000;
    (*buf).esterror = 500;
    (*buf).constant = 7;
    (*buf).precision = 1;
    (*buf).tolerance = 32_768_000;
    (*buf).tick = 10_000;
    (*buf).tai = 37;
    0 // TIME_OK
}

/// # Safety
/// Same contract as ntp_adjtime(3).
#[no_mangle]
pub unsafe extern "C" fn ntp_adjtime(buf: *mut libc::timex) -> libc::c_int {
    adjtimex(buf)
}

/// # Safety
/// Same contract as clock_adjtime(2).
#[no_mangle]
pub unsafe extern "C" fn clock_adjtime(clk: libc::clockid_t, buf: *mut libc::timex) -> libc::c_int {
    if clk == libc::CLOCK_REALTIME {
        return adjtimex(buf);
    }
    libc::syscall(libc::SYS_clock_adjtime, clk, buf) as libc::c_int
}

/// Sleeping is waiting for the clock: under a virtual clock, `nanosleep` / `clock_nanosleep` (what
/// `std::thread::sleep` ends up in) advance it by the requested time and return at once. Without a virtual
/// clock they are the real calls.
fn virtual_sleep(ns: i128) -> bool {
    if ARMED.try_with(|a| a.get()).unwrap_or(false) {
        advance(ns);
        return true;
    }
    if G_ARMED.load(Ordering::Relaxed) {
        global_advance(ns.min(i64::MAX as i128) as i64);
        return true;
    }
    false
}

/// # Safety
/// Same contract as nanosleep(2).
#[no_mangle]
pub unsafe extern "C" fn nanosleep(req: *const libc::timespec, rem: *mut libc::timespec) -> libc::c_int {
    if !req.is_null() && virtual_sleep((*req).tv_sec as i128 * NS + (*req).tv_nsec as i128) {
        return 0;
    }
    libc::syscall(libc::SYS_nanosleep, req, rem) as libc::c_int
}

/// # Safety
/// Same contract as clock_nanosleep(2).
#[no_mangle]
pub unsafe extern "C" fn clock_nanosleep(clk: libc::clockid_t, flags: libc::c_int, req: *const libc::timespec, rem: *mut libc::timespec) -> libc::c_int {
    if !req.is_null() && flags == 0 && virtual_sleep((*req).tv_sec as i128 * NS + (*req).tv_nsec as i128) {
        return 0;
    }
    // (returns the error number, not -1/errno)
    let r = libc::syscall(libc::SYS_clock_nanosleep, clk, flags, req, rem);
    if r == 0 { 0 } else { errno::errno().0 }
}

/// Really sleep (the harness's own waiting: watchdog, observers), whatever clock is armed.
pub fn real_sleep(d: std::time::Duration) {
    let req = libc::timespec { tv_sec: d.as_secs() as libc::time_t, tv_nsec: d.subsec_nanos() as libc::c_long };
    // SAFETY: plain system call with a valid pointer
    unsafe { libc::syscall(libc::SYS_nanosleep, &req as *const libc::timespec, std::ptr::null_mut::<libc::timespec>()) };
}
