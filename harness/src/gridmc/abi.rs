//! C17: (i) the bytes the real writer produces, decoded with offsets transcribed from docs/PROTOCOL.md;
//! (ii) a C program compiled against clockbound.h and linked with the freshly built libclockbound,
//! differentially against the Rust client on the same segment at the same virtual instant.

use crate::common::rec::{status_num, Rec};
use crate::common::report::{cov, finish, machinery_failure, Ctx, Outcome, Tier, Violation};
use crate::common::ts_ns;
use crate::common::vclock::{self, VClock};
use crate::gridmc::clientgrid::{client_err, Obs};
use crate::gridmc::segfiles::{self, FileCase};
use clock_bound_client::ClockBoundClient;
use clock_bound_shm::{ShmWrite, ShmWriter};
use serde_json::{json, Value};
use std::collections::BTreeMap;
use std::io::{BufRead, BufReader, Write};
use std::path::{Path, PathBuf};
use std::process::{Child, ChildStdin, Command, Stdio};

const S: i128 = 1_000_000_000;

pub struct CProg {
    child: Child,
    sin: ChildStdin,
    /// lines of the program's stdout, forwarded by a reader thread (so that a call that never returns is a
    /// finding, not a hang of the harness)
    lines: std::sync::mpsc::Receiver<String>,
    label: &'static str,
}

/// real seconds a single library call may take before it is reported as not returning
const CALL_TIMEOUT_S: u64 = 20;

impl CProg {
    pub fn finish(mut self) {
        drop(self.sin);
        let _ = self.child.wait();
    }
    pub fn ask(&mut self, line: &str) -> Result<String, String> {
        self.ask_bytes(line.as_bytes())
    }
    /// (a path is a byte string: the C API can be handed names that are not UTF-8)
    pub fn ask_bytes(&mut self, line_bytes: &[u8]) -> Result<String, String> {
        let line = String::from_utf8_lossy(line_bytes).to_string();
        let line = line.as_str();
        self.sin.write_all(line_bytes).and_then(|_| self.sin.write_all(b"\n")).map_err(|e| format!("C program ({}) is gone: {e}", self.label))?;
        self.sin.flush().map_err(|e| e.to_string())?;
        match self.lines.recv_timeout(std::time::Duration::from_secs(CALL_TIMEOUT_S)) {
            Ok(l) => Ok(l),
            Err(std::sync::mpsc::RecvTimeoutError::Disconnected) => Err(format!("C program ({}) terminated while processing: {line}", self.label)),
            Err(std::sync::mpsc::RecvTimeoutError::Timeout) => {
                let _ = self.child.kill();
                Err(format!("C program ({}) did not return within {CALL_TIMEOUT_S} s of real time from: {line}", self.label))
            }
        }
    }
}

pub fn build_c(ctx: &Ctx, static_link: bool) -> Result<PathBuf, String> {
    let plain = std::env::var("PLAIN_TARGET").unwrap_or_else(|_| ctx.verif_dir.join("target/plain").to_string_lossy().to_string());
    let libdir = format!("{plain}/ffi/release");
    let out = PathBuf::from(format!("{plain}/cabi-{}", if static_link { "static" } else { "so" }));
    let src = ctx.verif_dir.join("harness/cabi/cabi.c");
    let inc = ctx.repo_dir.join("clock-bound-ffi/include");
    let mut cmd = Command::new("cc");
    cmd.args(["-O1", "-Wall", "-Werror=implicit-function-declaration", "-Werror=incompatible-pointer-types"]).arg(format!("-I{}", inc.display())).arg(&src);
    if static_link {
        cmd.arg(format!("{libdir}/libclockbound.a")).args(["-lpthread", "-ldl", "-lm"]);
    } else {
        cmd.arg(format!("-L{libdir}")).arg("-lclockbound").arg(format!("-Wl,-rpath,{libdir}")).arg("-rdynamic").arg("-lpthread");
    }
    cmd.arg("-o").arg(&out);
    let o = cmd.output().map_err(|e| format!("cannot run cc: {e}"))?;
    if !o.status.success() {
        return Err(format!("the C program does not compile against clockbound.h / link with libclockbound:\n{}", String::from_utf8_lossy(&o.stderr)));
    }
    Ok(out)
}

pub fn start_c(bin: &Path, label: &'static str) -> Result<CProg, String> {
    // stderr is a device on which every write fails (a full log disk): a library that prints diagnostics must not die of it
    let err = std::fs::OpenOptions::new().write(true).open("/dev/full").map(Stdio::from).unwrap_or_else(|_| Stdio::null());
    let mut child = Command::new(bin).stdin(Stdio::piped()).stdout(Stdio::piped()).stderr(err).spawn().map_err(|e| format!("cannot start {}: {e}", bin.display()))?;
    let sin = child.stdin.take().unwrap();
    let sout = BufReader::new(child.stdout.take().unwrap());
    let (tx, lines) = std::sync::mpsc::channel();
    std::thread::spawn(move || {
        for l in sout.lines() {
            match l {
                Ok(l) => {
                    if tx.send(l.trim_end().to_string()).is_err() {
                        break;
                    }
                }
                Err(_) => break,
            }
        }
    });
    Ok(CProg { child, sin, lines, label })
}

pub fn parse_abi(line: &str) -> BTreeMap<String, String> {
    line.split_whitespace().skip(1).filter_map(|kv| kv.split_once('=')).map(|(k, v)| (k.to_string(), v.to_string())).collect()
}

/// the Rust client's answer, rendered like the C program's output line
fn rust_now(path: &Path, real_ns: i128, mono_ns: i128, fail: (i32, i32), abi: &BTreeMap<String, String>) -> String {
    match std::panic::catch_unwind(std::panic::AssertUnwindSafe(|| rust_now_inner(path, real_ns, mono_ns, fail, abi))) {
        Ok(s) => s,
        Err(_) => {
            vclock::disarm();
            "now PANIC (the Rust client panicked)".into()
        }
    }
}

fn rust_now_inner(path: &Path, real_ns: i128, mono_ns: i128, fail: (i32, i32), abi: &BTreeMap<String, String>) -> String {
    vclock::disarm();
    let opened = ClockBoundClient::new_with_path(path.to_str().unwrap());
    let mut cl = match opened {
        Ok(c) => c,
        Err(e) => return render_err("open", client_err(e), abi),
    };
    vclock::arm(VClock { real_ns, mono_ns, auto_advance_ns: 0, fail_errno: fail.0, fail_clock: fail.1 });
    let r = cl.now();
    vclock::disarm();
    match r {
        Ok(n) => {
            let e = n.earliest.as_ref();
            let l = n.latest.as_ref();
            let st = match status_num(n.clock_status) {
                0 => &abi["sta_unknown"],
                1 => &abi["sta_sync"],
                _ => &abi["sta_free"],
            };
            format!("now ok {} {} {} {} {}", e.tv_sec, e.tv_nsec, l.tv_sec, l.tv_nsec, st)
        }
        Err(e) => render_err("now", client_err(e), abi),
    }
}

fn rust_open(path: &Path, abi: &BTreeMap<String, String>) -> String {
    match ClockBoundClient::new_with_path(path.to_str().unwrap()) {
        Ok(_) => "open ok".into(),
        Err(e) => render_err("open", client_err(e), abi),
    }
}

fn render_err(what: &str, o: Obs, abi: &BTreeMap<String, String>) -> String {
    match o {
        Obs::Err { kind, errno, detail } => {
            let k = match kind {
                "syscall" => &abi["kind_syscall"],
                "not_initialized" => &abi["kind_notinit"],
                "malformed" => &abi["kind_malformed"],
                _ => &abi["kind_causality"],
            };
            format!("{what} err {k} {errno} {}", if detail.is_empty() { "-".to_string() } else { detail })
        }
        _ => unreachable!(),
    }
}

/// strip the informational suffix of a C "now ok" line
fn c_core(line: &str) -> String {
    match line.find(" first_read=") {
        Some(i) => line[..i].to_string(),
        None => line.to_string(),
    }
}

struct Tally {
    n: u64,
    nontrivial: u64,
    counts: BTreeMap<String, u64>,
    kept: Vec<Violation>,
    classes: BTreeMap<String, u64>,
}

impl Tally {
    fn add(&mut self, sig: &str, text: String, replay: Value) {
        *self.counts.entry(sig.to_string()).or_insert(0) += 1;
        if !self.kept.iter().any(|v| v.signature == sig) {
            self.kept.push(Violation { signature: sig.to_string(), text, replay });
        }
    }
}

fn layout_check(ctx: &Ctx, t: &mut Tally) -> u64 {
    let dir = ctx.scratch();
    let path = dir.join("layout");
    let _ = std::fs::remove_file(&path);
    let mut w = ShmWriter::new(&path).unwrap_or_else(|e| machinery_failure(&format!("ShmWriter::new on a scratch path failed: {e}")));
    let secs: Vec<i64> = vec![-1, 0, 1, 5000, 1 << 40];
    let nsecs: Vec<i64> = vec![0, 1, 999_999_999];
    let bounds: Vec<i64> = vec![0, 1, 77_000_001, (1 << 60) - 1, -1];
    let drifts: Vec<u32> = vec![0, 1, 50_000, u32::MAX];
    let reserved: Vec<u32> = vec![0, 0xDEAD_BEEF];
    let mut n = 0u64;
    let mut last_gen = 0u16;
    for a_s in &secs {
        for a_n in &nsecs {
            for v_s in &secs {
                for b in &bounds {
                    for d in &drifts {
                        for rs in &reserved {
                            for st in 0..3u32 {
                                let v_n = (*a_n + 7) % 1_000_000_000;
                                let rec = Rec { as_of_s: *a_s, as_of_ns: *a_n, va_s: *v_s, va_ns: v_n, bound: *b, drift: *d, reserved: *rs, status: st };
                                w.write(&rec.to_ceb());
                                let f = std::fs::read(&path).unwrap_or_default();
                                n += 1;
                                let doc = || json!({"check": "C17", "part": "layout", "record": rec.json(), "file_bytes": f});
                                if f.len() != 72 {
                                    t.add("C17:layout:size", format!("the segment file is {} bytes, PROTOCOL.md describes 72", f.len()), doc());
                                    return n;
                                }
                                // magic: the document says u64, lists eight bytes and says native endian: accept each reading
                                let listed: [u8; 8] = [0x41, 0x4D, 0x5A, 0x4E, 0x43, 0x42, 0x02, 0x00];
                                let as_u64 = 0x414D5A4E43420200u64.to_ne_bytes();
                                let as_words = [0x414D5A4Eu32.to_ne_bytes(), 0x43420200u32.to_ne_bytes()].concat();
                                if f[0..8] != listed && f[0..8] != as_u64 && f[0..8] != as_words[..] {
                                    t.add("C17:layout:magic", format!("magic bytes {:?} match no reading of the documented magic number", &f[0..8]), doc());
                                }
                                let u32_at = |o: usize| u32::from_ne_bytes(f[o..o + 4].try_into().unwrap());
                                let i64_at = |o: usize| i64::from_ne_bytes(f[o..o + 8].try_into().unwrap());
                                let u16_at = |o: usize| u16::from_ne_bytes(f[o..o + 2].try_into().unwrap());
                                let gen = u16_at(14);
                                let decoded = Rec { as_of_s: i64_at(16), as_of_ns: i64_at(24), va_s: i64_at(32), va_ns: i64_at(40), bound: i64_at(48), drift: u32_at(56), reserved: u32_at(60), status: i32::from_ne_bytes(f[64..68].try_into().unwrap()) as u32 };
                                if u32_at(8) != 72 {
                                    t.add("C17:layout:segment-size-field", format!("segment size field is {}, the file is 72 bytes", u32_at(8)), doc());
                                }
                                if u16_at(12) != 1 {
                                    t.add("C17:layout:version", format!("version field is {}, protocol version is 1", u16_at(12)), doc());
                                }
                                if gen == 0 || gen % 2 == 1 || gen == last_gen {
                                    t.add("C17:layout:generation", format!("generation field is {gen} after a completed update (previous {last_gen})"), doc());
                                }
                                last_gen = gen;
                                if decoded != rec {
                                    let field = if (decoded.as_of_s, decoded.as_of_ns) != (rec.as_of_s, rec.as_of_ns) { "as-of" } else if (decoded.va_s, decoded.va_ns) != (rec.va_s, rec.va_ns) { "void-after" } else if decoded.bound != rec.bound { "bound" } else if decoded.drift != rec.drift { "max-drift" } else if decoded.reserved != rec.reserved { "reserved" } else { "status" };
                                    t.add(&format!("C17:layout:{field}"), format!("decoding the file with the documented offsets gives {}, the daemon published {}", decoded.json(), rec.json()), doc());
                                }
                            }
                        }
                    }
                }
            }
        }
    }
    n
}

#[derive(Clone)]
struct NowCase {
    rec: Rec,
    real_ns: i128,
    mono_ns: i128,
    fail: (i32, i32),
}

fn now_cases(tier: Tier) -> Vec<NowCase> {
    let mut v = vec![];
    let as_ofs: Vec<(i64, i64)> = tier.pick(vec![(5000, 0), (5000, 999_999_999), (-1, 500_000_000)], vec![(5000, 0), (5000, 999_999_999), (-1, 500_000_000), (0, 0), (2_100_000_000, 1)]);
    let mut ages: Vec<i128> = vec![-4 * S, -1001, -1000, -999, -1, 0, 1, 999, S, 5 * S - 1, 5 * S, 5 * S + 1, 999 * S, 1000 * S - 1, 1000 * S, 1000 * S + 1, 36_000 * S];
    // the structural age families of the client grid: (seconds x nanoseconds) in both signs; thorough: the wrap points too
    ages.extend(crate::gridmc::clientgrid::two_component_ages());
    if tier == Tier::Thorough {
        ages.extend(crate::gridmc::clientgrid::wrap_ages());
    }
    ages.sort();
    ages.dedup();
    let bounds: Vec<i64> = tier.pick(vec![0, 77_000_001, (1 << 60) - 1], vec![0, 1, 999, 77_000_001, 999_999_999, 1 << 32, 1 << 53, (1 << 60) - 1]);
    let drifts: Vec<u32> = tier.pick(vec![0, 1000, 50_000, 999_999_999, 1_000_000_000], vec![0, 1, 7, 1000, 50_000, 65_536, 999_999_999, 1_000_000_000, 2_000_000_000, u32::MAX]);
    let reals: Vec<i128> = vec![ts_ns(1_700_000_000, 999_999_999), ts_ns(-1_000_000, 5)];
    for (s, n) in &as_ofs {
        for b in &bounds {
            for d in &drifts {
                for st in 0..3u32 {
                    let rec = Rec { as_of_s: *s, as_of_ns: *n, va_s: *s + 1000, va_ns: 0, bound: *b, drift: *d, reserved: 0, status: st };
                    for a in &ages {
                        // same domain as the client grid: readings within +/- 68 years
                        if (ts_ns(*s, *n) + *a).abs() > 2_144_000_000 * S {
                            continue;
                        }
                        for r in &reals {
                            v.push(NowCase { rec, real_ns: *r, mono_ns: ts_ns(*s, *n) + *a, fail: (0, -1) });
                        }
                    }
                }
            }
        }
    }
    let rec = Rec { as_of_s: 5000, as_of_ns: 0, va_s: 6000, va_ns: 0, bound: 10_000, drift: 1000, reserved: 0, status: 1 };
    for errno in [libc::EINVAL, libc::EPERM, libc::EFAULT] {
        for clk in [libc::CLOCK_REALTIME, libc::CLOCK_MONOTONIC_COARSE, -1] {
            v.push(NowCase { rec, real_ns: reals[0], mono_ns: ts_ns(5001, 0), fail: (errno, clk) });
        }
    }
    v
}

fn differential(ctx: &Ctx, bin: &Path, label: &'static str, t: &mut Tally, samples: &mut Vec<Value>) -> Result<(u64, BTreeMap<String, String>), String> {
    let mut c = start_c(bin, label)?;
    let abi = parse_abi(&c.ask("A")?);
    for k in ["kind_syscall", "kind_notinit", "kind_malformed", "kind_causality", "sta_unknown", "sta_sync", "sta_free", "res_size", "err_size"] {
        if !abi.contains_key(k) {
            return Err(format!("the C program's ABI line lacks {k}"));
        }
    }
    let dir = ctx.scratch().join(format!("abi-{label}"));
    let _ = std::fs::create_dir_all(&dir);
    let mut n = 0u64;
    // (a) now() on daemon-written segments
    let path = dir.join("seg");
    let _ = std::fs::remove_file(&path);
    let mut w = ShmWriter::new(&path).map_err(|e| e.to_string())?;
    let mut last: Option<Rec> = None;
    for case in now_cases(ctx.tier) {
        if last != Some(case.rec) {
            w.write(&case.rec.to_ceb());
            last = Some(case.rec);
        }
        n += 1;
        let r1 = rust_now(&path, case.real_ns, case.mono_ns, case.fail, &abi);
        let real = (case.real_ns.div_euclid(S), case.real_ns.rem_euclid(S));
        let mono = (case.mono_ns.div_euclid(S), case.mono_ns.rem_euclid(S));
        let cl = c.ask(&format!("N {} {} {} {} {} {} {}", path.display(), real.0, real.1, mono.0, mono.1, case.fail.0, case.fail.1))?;
        let r2 = rust_now(&path, case.real_ns, case.mono_ns, case.fail, &abi);
        let doc = || json!({"check": "C17", "part": "now", "library": label, "record": case.rec.json(), "realtime_ns": case.real_ns.to_string(), "monotonic_ns": case.mono_ns.to_string(), "inject": [case.fail.0, case.fail.1], "c": cl, "rust": r1});
        if r1 != r2 {
            return Err(format!("the Rust client is not deterministic on this case: {r1} vs {r2}"));
        }
        *t.classes.entry(r1.split(' ').take(2).collect::<Vec<_>>().join(" ")).or_insert(0) += 1;
        if !r1.starts_with("now ok") || case.rec.status != 0 {
            t.nontrivial += 1;
        }
        if c_core(&cl) != r1 {
            let what = if cl.starts_with("now ok") && r1.starts_with("now ok") {
                let (cs, rs): (Vec<&str>, Vec<&str>) = (c_core(&cl).leak().split(' ').collect(), r1.split(' ').collect());
                if cs[6] != rs[6] { "status" } else { "interval" }
            } else if cl.starts_with("now err") && r1.starts_with("now err") {
                "error-fields"
            } else {
                "ok-vs-error"
            };
            t.add(&format!("C17:c-differs-from-rust:{what}"), format!("same segment, same instant: the C library says '{cl}', the Rust client says '{r1}'"), doc());
        }
        if samples.len() < 3 && n % 701 == 5 {
            samples.push(json!({"library": label, "c": cl, "rust": r1, "record": case.rec.json()}));
        }
    }
    // (b) open() on the C16 file alphabet
    let files: Vec<FileCase> = segfiles::cases(Tier::Quick);
    for (i, fc) in files.iter().enumerate() {
        if ctx.tier == Tier::Quick && i % 3 != 0 && i > 100 {
            continue;
        }
        let p = segfiles::materialise(fc, &dir.join("files"));
        n += 1;
        let r1 = rust_open(&p, &abi);
        let cl = c.ask(&format!("O {}", p.display()))?;
        if !r1.ends_with("ok") {
            t.nontrivial += 1;
        }
        *t.classes.entry(r1.split(' ').take(3).collect::<Vec<_>>().join(" ")).or_insert(0) += 1;
        if cl != r1 {
            t.add("C17:c-differs-from-rust:open", format!("{}: clockbound_open says '{cl}', the Rust client says '{r1}'", fc.label), json!({"check": "C17", "part": "open", "library": label, "case": fc.label, "c": cl, "rust": r1}));
        }
    }
    // (b') the C API takes the path as bytes: a name that is not valid UTF-8 (a directory created under a legacy
    // locale) must reach open(2) as given. The Rust client, whose API takes &str, opens the same file under an
    // ASCII hard link; same inode, same moment, same answer.
    {
        use std::os::unix::ffi::OsStrExt;
        let d8 = dir.join(std::ffi::OsStr::from_bytes(b"clockbound-caf\xe9"));
        let _ = std::fs::create_dir_all(&d8);
        let ascii = dir.join("seg-ascii-name");
        let _ = std::fs::remove_file(&ascii);
        let mut w = ShmWriter::new(&ascii).map_err(|e| e.to_string())?;
        w.write(&Rec { as_of_s: 5000, as_of_ns: 0, va_s: 6000, va_ns: 0, bound: 4321, drift: 1000, reserved: 0, status: 2 }.to_ceb());
        let legacy = d8.join("shm");
        let _ = std::fs::remove_file(&legacy);
        std::fs::hard_link(&ascii, &legacy).map_err(|e| e.to_string())?;
        n += 1;
        let r1 = rust_now(&ascii, ts_ns(1_700_000_000, 5), ts_ns(5001, 0), (0, -1), &abi);
        let mut cmd: Vec<u8> = b"N ".to_vec();
        cmd.extend_from_slice(legacy.as_os_str().as_bytes());
        cmd.extend_from_slice(b" 1700000000 5 5001 0 0 -1");
        let cl = c.ask_bytes(&cmd)?;
        if c_core(&cl) != r1 {
            t.add("C17:c-differs-from-rust:path-bytes", format!("the same segment under a path that is not valid UTF-8 (…/clockbound-caf\\xe9/shm): the C library says '{cl}', the Rust client (ASCII hard link to the same file) says '{r1}'"), json!({"check": "C17", "part": "non-UTF-8 path", "library": label, "c": cl, "rust": r1}));
        }
        drop(w);
        crate::seqmc::engine::close_leaked_fds(&ascii);
    }
    // (c) sequences: both libraries keep their context open while the segment changes underneath them.
    // Every sequence of up to 3 segment mutations (a complete publication, an update left in flight, a
    // wipe as the daemon does on a corrupt file, nothing), with a now() on both after every step: the
    // two libraries wrap the same reader and must carry the same reader state.
    {
        use std::os::unix::fs::FileExt;
        let muts = ["publish", "begin-update", "wipe", "nothing"];
        let depth = 3usize;
        let total = muts.len().pow(depth as u32);
        for code in 0..total {
            let seq: Vec<&str> = (0..depth).map(|i| muts[(code / muts.len().pow(i as u32)) % muts.len()]).collect();
            let path = dir.join("seq");
            let _ = std::fs::remove_file(&path);
            let mut w = ShmWriter::new(&path).map_err(|e| e.to_string())?;
            let rec_k = |k: i64| Rec { as_of_s: 5000 + k, as_of_ns: 0, va_s: 6000 + k, va_ns: 0, bound: 1_000_000 * k, drift: 1000, reserved: 0, status: 1 };
            let mut k = 1i64;
            w.write(&rec_k(k).to_ceb());
            let co = c.ask(&format!("P 1 {}", path.display()))?;
            let mut rust = ClockBoundClient::new_with_path(path.to_str().unwrap()).map_err(|e| format!("{:?}", e.kind))?;
            if co != "open ok" {
                return Err(format!("sequence set-up: clockbound_open says {co}"));
            }
            let file = std::fs::OpenOptions::new().read(true).write(true).open(&path).map_err(|e| e.to_string())?;
            // a second context on another segment that never changes, open at the same time in both libraries:
            // its answers must stay its own
            let path_b = dir.join("seq-b");
            let _ = std::fs::remove_file(&path_b);
            let mut wb = ShmWriter::new(&path_b).map_err(|e| e.to_string())?;
            let rec_b = Rec { as_of_s: 4000, as_of_ns: 7, va_s: 9000, va_ns: 0, bound: 123_456_789, drift: 77, reserved: 0, status: 2 };
            wb.write(&rec_b.to_ceb());
            if c.ask(&format!("P 2 {}", path_b.display()))? != "open ok" {
                return Err("sequence set-up: clockbound_open of the second segment failed".into());
            }
            let mut rust_b = ClockBoundClient::new_with_path(path_b.to_str().unwrap()).map_err(|e| format!("{:?}", e.kind))?;
            for (step, m) in seq.iter().enumerate() {
                match *m {
                    "publish" => {
                        k += 1;
                        w.write(&rec_k(k).to_ceb());
                    }
                    "begin-update" => {
                        // what a writer killed mid-update leaves: an odd generation and a half-written record
                        let mut g = [0u8; 2];
                        file.read_exact_at(&mut g, 14).map_err(|e| e.to_string())?;
                        let gen = u16::from_ne_bytes(g);
                        let odd = if gen % 2 == 0 { gen.wrapping_add(1) } else { gen };
                        file.write_all_at(&odd.to_ne_bytes(), 14).map_err(|e| e.to_string())?;
                        k += 1;
                        let rb = crate::gridmc::segfiles::record_bytes(&rec_k(k));
                        file.write_all_at(&rb[..24], 16).map_err(|e| e.to_string())?;
                    }
                    "wipe" => {
                        file.write_all_at(&[0u8; 60], 12).map_err(|e| e.to_string())?;
                        // the daemon then sets the version and publishes afresh; here it has not yet
                    }
                    _ => {}
                }
                n += 1;
                let (real_ns, mono_ns) = (ts_ns(1_700_000_000, 5), ts_ns(5003 + k, 0));
                vclock::arm(VClock { real_ns, mono_ns, auto_advance_ns: 0, fail_errno: 0, fail_clock: -1 });
                let rr = rust.now();
                vclock::disarm();
                let r1 = match rr {
                    Ok(nw) => {
                        let e = nw.earliest.as_ref();
                        let l = nw.latest.as_ref();
                        let st = match status_num(nw.clock_status) { 0 => &abi["sta_unknown"], 1 => &abi["sta_sync"], _ => &abi["sta_free"] };
                        format!("now ok {} {} {} {} {}", e.tv_sec, e.tv_nsec, l.tv_sec, l.tv_nsec, st)
                    }
                    Err(e) => render_err("now", client_err(e), &abi),
                };
                let cl = c.ask(&format!("Q 1 {} {} {} {}", real_ns.div_euclid(S), real_ns.rem_euclid(S), mono_ns.div_euclid(S), mono_ns.rem_euclid(S)))?;
                *t.classes.entry(format!("sequence step: {}", r1.split(' ').take(2).collect::<Vec<_>>().join(" "))).or_insert(0) += 1;
                t.nontrivial += 1;
                // the bystander context
                {
                    let (real_b, mono_b) = (ts_ns(1_700_000_000, 5), ts_ns(4002, 0));
                    vclock::arm(VClock { real_ns: real_b, mono_ns: mono_b, auto_advance_ns: 0, fail_errno: 0, fail_clock: -1 });
                    let rb = rust_b.now();
                    let want_b = rec_b.to_ceb().now();
                    vclock::disarm();
                    let fmt = |e: &libc::timespec, l: &libc::timespec, st: u32| format!("now ok {} {} {} {} {}", e.tv_sec, e.tv_nsec, l.tv_sec, l.tv_nsec, match st { 0 => &abi["sta_unknown"], 1 => &abi["sta_sync"], _ => &abi["sta_free"] });
                    let want = match want_b { Ok((e, l, st)) => fmt(&e, &l, status_num(st)), Err(e) => format!("{e:?}") };
                    let r_b = match rb { Ok(nw) => fmt(nw.earliest.as_ref(), nw.latest.as_ref(), status_num(nw.clock_status)), Err(e) => render_err("now", client_err(e), &abi) };
                    let c_b = c.ask(&format!("Q 2 {} {} {} {}", real_b.div_euclid(S), real_b.rem_euclid(S), mono_b.div_euclid(S), mono_b.rem_euclid(S)))?;
                    n += 1;
                    if r_b != want || c_b != want {
                        t.add("C17:second-context-disturbed", format!("two contexts open at once; the first one's segment went through {:?}; the context on the other, unchanged segment must answer '{want}': clockbound_now says '{c_b}', the Rust client says '{r_b}'", &seq[..=step]), json!({"check": "C17", "part": "sequence, bystander context", "library": label, "mutations": seq, "step": step, "c": c_b, "rust": r_b, "expected": want}));
                        break;
                    }
                }
                if cl != r1 {
                    t.add("C17:c-differs-from-rust:after-segment-change", format!("both libraries attached to a fresh segment, then the segment went through {:?}: at step {step} clockbound_now says '{cl}', the Rust client says '{r1}'", &seq[..=step]), json!({"check": "C17", "part": "sequence", "library": label, "mutations": seq, "step": step, "c": cl, "rust": r1}));
                    break;
                }
            }
            let _ = c.ask("R 1")?;
            let _ = c.ask("R 2")?;
            drop(w);
            drop(wb);
            crate::seqmc::engine::close_leaked_fds(&path);
            crate::seqmc::engine::close_leaked_fds(&path_b);
        }
    }
    // (g) a publication that lands INSIDE a call: "the same segment at the same moment" includes the moment at which
    // each library looks at the segment within its call. While the k-th clock read of the call is in progress a
    // complete publication lands (in both libraries' runs, by the same bytes): a library that reads its clocks and
    // the segment in another order than the other one pairs its time stamps with another record
    {
        use std::os::unix::fs::FileExt;
        let path = dir.join("seg-g");
        let (real_ns, mono_ns) = (ts_ns(1_700_000_000, 5), ts_ns(5000, 0));
        let rec_a = Rec { as_of_s: 4999, as_of_ns: 0, va_s: 6000, va_ns: 0, bound: 1_000_000, drift: 1000, reserved: 0, status: 1 };
        let landing = [
            Rec { as_of_s: 5000, as_of_ns: 4_000_000, va_s: 6001, va_ns: 0, bound: 2_000_000, drift: 1000, reserved: 0, status: 1 }, // stamped at the next tick of the coarse clock
            Rec { as_of_s: 5000, as_of_ns: 0, va_s: 6001, va_ns: 0, bound: 3_000_000, drift: 1000, reserved: 0, status: 1 },
            Rec { as_of_s: 4999, as_of_ns: 500_000_000, va_s: 6001, va_ns: 0, bound: 4_000_000, drift: 1000, reserved: 0, status: 2 },
        ];
        for (li, rec_b) in landing.iter().enumerate() {
            for k in 0..3u32 {
                let rb = crate::gridmc::segfiles::record_bytes(rec_b);
                let mut answers = vec![];
                for who in ["c", "rust"] {
                    let _ = std::fs::remove_file(&path);
                    let mut w = ShmWriter::new(&path).map_err(|e| e.to_string())?;
                    w.write(&rec_a.to_ceb());
                    let ans = if who == "c" {
                        if c.ask(&format!("P 5 {}", path.display()))? != "open ok" {
                            return Err("part (g) set-up: clockbound_open failed".into());
                        }
                        let _ = c.ask(&format!("Q 5 {} {} {} {}", real_ns.div_euclid(S), real_ns.rem_euclid(S), mono_ns.div_euclid(S), mono_ns.rem_euclid(S)))?;
                        let hex: String = rb.iter().map(|b| format!("{b:02x}")).collect();
                        let a = c.ask(&format!("K 5 {} {k} {} {} {} {} {hex}", path.display(), real_ns.div_euclid(S), real_ns.rem_euclid(S), mono_ns.div_euclid(S), mono_ns.rem_euclid(S)))?;
                        let _ = c.ask("R 5")?;
                        c_core(&a)
                    } else {
                        let mut rust = ClockBoundClient::new_with_path(path.to_str().unwrap()).map_err(|e| format!("{:?}", e.kind))?;
                        vclock::arm(VClock { real_ns, mono_ns, auto_advance_ns: 0, fail_errno: 0, fail_clock: -1 });
                        let _ = rust.now();
                        let file = std::fs::OpenOptions::new().read(true).write(true).open(&path).map_err(|e| e.to_string())?;
                        let rb2 = rb.clone();
                        vclock::at_read(k, Box::new(move || {
                            let mut g = [0u8; 2];
                            if file.read_exact_at(&mut g, 14).is_ok() {
                                let gen = u16::from_ne_bytes(g);
                                let _ = file.write_all_at(&gen.wrapping_add(1).to_ne_bytes(), 14);
                                let _ = file.write_all_at(&rb2, 16);
                                let even = if gen.wrapping_add(2) == 0 { 2 } else { gen.wrapping_add(2) };
                                let _ = file.write_all_at(&even.to_ne_bytes(), 14);
                            }
                        }));
                        let rr = rust.now();
                        vclock::disarm();
                        match rr {
                            Ok(nw) => {
                                let e = nw.earliest.as_ref();
                                let l = nw.latest.as_ref();
                                let st = match status_num(nw.clock_status) { 0 => &abi["sta_unknown"], 1 => &abi["sta_sync"], _ => &abi["sta_free"] };
                                format!("now ok {} {} {} {} {}", e.tv_sec, e.tv_nsec, l.tv_sec, l.tv_nsec, st)
                            }
                            Err(e) => render_err("now", client_err(e), &abi),
                        }
                    };
                    answers.push(ans);
                    drop(w);
                    crate::seqmc::engine::close_leaked_fds(&path);
                }
                n += 1;
                t.nontrivial += 1;
                *t.classes.entry(format!("publication inside the call: {}", answers[1].split(' ').take(2).collect::<Vec<_>>().join(" "))).or_insert(0) += 1;
                if answers[0] != answers[1] {
                    t.add("C17:c-differs-from-rust:publication-inside-the-call", format!("both libraries hold record A; a publication of record B (as-of {}.{:09}, bound {}) lands while the call's clock read number {k} is in progress: clockbound_now says '{}', the Rust client says '{}' - the two libraries do not look at the segment at the same point of the call", rec_b.as_of_s, rec_b.as_of_ns, rec_b.bound, answers[0], answers[1]),
                        json!({"check": "C17", "part": "publication inside the call", "library": label, "landing_record": li, "during_clock_read": k, "c": answers[0], "rust": answers[1]}));
                }
            }
        }
    }
    // (f) two contexts, two segments that fail differently (as-of in the future; a drift of 1e9 ppb): what the call
    // on the first context returned must still describe the first context after the second one has been called
    {
        let pa = dir.join("seg-f-a");
        let pb = dir.join("seg-f-b");
        let _ = std::fs::remove_file(&pa);
        let _ = std::fs::remove_file(&pb);
        let mut wa = ShmWriter::new(&pa).map_err(|e| e.to_string())?;
        let mut wb = ShmWriter::new(&pb).map_err(|e| e.to_string())?;
        wa.write(&Rec { as_of_s: 9000, as_of_ns: 0, va_s: 10_000, va_ns: 0, bound: 1000, drift: 1000, reserved: 0, status: 1 }.to_ceb());
        wb.write(&Rec { as_of_s: 5000, as_of_ns: 0, va_s: 6000, va_ns: 0, bound: 1000, drift: 1_000_000_000, reserved: 0, status: 1 }.to_ceb());
        for (sa, sb, order) in [(3, 4, "A then B"), (4, 3, "B then A")] {
            n += 1;
            if c.ask(&format!("P 3 {}", pa.display()))? != "open ok" || c.ask(&format!("P 4 {}", pb.display()))? != "open ok" {
                return Err("two-context set-up: clockbound_open failed".into());
            }
            let cl = c.ask(&format!("X {sa} {sb} 1700000000 5 5001 0"))?;
            let _ = c.ask("R 3")?;
            let _ = c.ask("R 4")?;
            let ka = format!("{}/0", abi["kind_causality"]);
            let kb = format!("{}/0", abi["kind_malformed"]);
            let want = if sa == 3 { format!("x A:{ka} B:{kb}") } else { format!("x A:{kb} B:{ka}") };
            // the Rust client for reference
            let r = |p: &Path| rust_now(p, ts_ns(1_700_000_000, 5), ts_ns(5001, 0), (0, -1), &abi);
            let (ra, rb) = (r(&pa), r(&pb));
            if !ra.starts_with(&format!("now err {}", abi["kind_causality"])) || !rb.starts_with(&format!("now err {}", abi["kind_malformed"])) {
                return Err(format!("two-context set-up: the Rust client says {ra} / {rb}"));
            }
            if cl != want {
                t.add("C17:error-of-one-context-changed-by-another", format!("two contexts on two segments ({order}): after both calls the C library's two error results read '{cl}', each context on its own (and the Rust client) gives '{want}'"), json!({"check": "C17", "part": "two failing contexts", "library": label, "order": order, "c": cl, "expected": want}));
            }
        }
        drop(wa);
        drop(wb);
        crate::seqmc::engine::close_leaked_fds(&pa);
        crate::seqmc::engine::close_leaked_fds(&pb);
    }
    // (e) resource accounting: open/close cycles and failed opens leave no descriptor and no mapping behind, in
    // either library ("close deallocates the context", as the header says)
    {
        let path = dir.join("seg-e");
        let _ = std::fs::remove_file(&path);
        let mut w = ShmWriter::new(&path).map_err(|e| e.to_string())?;
        w.write(&Rec { as_of_s: 5000, as_of_ns: 0, va_s: 6000, va_ns: 0, bound: 1000, drift: 1000, reserved: 0, status: 1 }.to_ceb());
        let empty = dir.join("seg-e-empty");
        std::fs::write(&empty, b"").map_err(|e| e.to_string())?;
        let parse = |l: &str| -> Result<(i64, i64), String> {
            let p: Vec<&str> = l.split(' ').collect();
            if p.len() == 3 && p[0] == "res" { Ok((p[1].parse().unwrap_or(-1), p[2].parse().unwrap_or(-1))) } else { Err(format!("unexpected reply to M: {l}")) }
        };
        for (what, target) in [("open + now + close of a valid segment", &path), ("failed open of an empty file", &empty)] {
            // C library (one warm-up round first)
            for round in 0..2 {
                let before = parse(&c.ask("M")?)?;
                for _ in 0..20 {
                    let _ = c.ask(&format!("N {} 1700000000 5 5001 0 0 -1", target.display()))?;
                }
                let after = parse(&c.ask("M")?)?;
                if round == 1 {
                    n += 1;
                    if after.0 > before.0 || after.1 > before.1 {
                        t.add("C17:c-library-leaks-per-context", format!("20 x {what} through the C library: open descriptors {} -> {}, memory mappings {} -> {} (clockbound.h: close deallocates the context)", before.0, after.0, before.1, after.1), json!({"check": "C17", "part": "resource accounting", "library": label, "what": what}));
                    }
                }
            }
            // Rust client
            for round in 0..2 {
                let before = crate::common::resources();
                for _ in 0..20 {
                    let _ = rust_now(target, ts_ns(1_700_000_000, 5), ts_ns(5001, 0), (0, -1), &abi);
                }
                let after = crate::common::resources();
                if round == 1 {
                    n += 1;
                    if after.0 > before.0 || after.1 > before.1 {
                        t.add("C17:rust-client-leaks-per-context", format!("20 x {what} through the Rust client: open descriptors {} -> {}, memory mappings {} -> {}", before.0, after.0, before.1, after.1), json!({"check": "C17", "part": "resource accounting", "library": "Rust client", "what": what}));
                    }
                }
            }
        }
        drop(w);
        crate::seqmc::engine::close_leaked_fds(&path);
    }
    // (d) a system call made while opening a valid segment fails once (open, the header read, mmap; several
    // errno values including the "try again" ones): both libraries must report the same kind and errno
    {
        use crate::common::iofault;
        let path = dir.join("seg-d");
        let _ = std::fs::remove_file(&path);
        let mut w = ShmWriter::new(&path).map_err(|e| e.to_string())?;
        w.write(&Rec { as_of_s: 5000, as_of_ns: 0, va_s: 6000, va_ns: 0, bound: 1000, drift: 1000, reserved: 0, status: 1 }.to_ceb());
        for (call, name) in [(iofault::CALL_OPEN, "open"), (iofault::CALL_READ, "read"), (iofault::CALL_MMAP, "mmap")] {
            for errno in [libc::EINTR, libc::EAGAIN, libc::EIO, libc::ENOMEM, libc::EACCES, libc::EMFILE] {
                for nth in [0u32, 1] {
                    n += 1;
                    iofault::fail_call_once(call, nth, errno);
                    let r1 = rust_open(&path, &abi);
                    let fired = iofault::clear_once();
                    let armed = c.ask(&format!("F {call} {nth} {errno}"))?;
                    if armed != "armed" {
                        return Err(format!("the C program did not arm the fault: {armed}"));
                    }
                    let cl = c.ask(&format!("O {}", path.display()))?;
                    if fired {
                        t.nontrivial += 1;
                    }
                    *t.classes.entry(format!("{name} fails once: {}", r1.split(' ').take(3).collect::<Vec<_>>().join(" "))).or_insert(0) += 1;
                    if cl != r1 {
                        t.add("C17:c-differs-from-rust:open-with-failing-syscall", format!("valid segment, call number {nth} of {name}(2) during the open fails once with errno {errno}: clockbound_open says '{cl}', the Rust client says '{r1}'"), json!({"check": "C17", "part": "open with a failing system call", "library": label, "call": name, "nth": nth, "errno": errno, "c": cl, "rust": r1}));
                    }
                }
            }
        }
        drop(w);
        crate::seqmc::engine::close_leaked_fds(&path);
    }
    c.finish();
    Ok((n, abi))
}

pub fn run(ctx: &Ctx) -> i32 {
    crate::common::report::quiet_panics();
    if ctx.replay.is_some() {
        println!("C17 cases are re-checked by running the check; the replay file names the record / file and both answers");
        return 0;
    }
    let mut t = Tally { n: 0, nontrivial: 0, counts: BTreeMap::new(), kept: vec![], classes: BTreeMap::new() };
    let mut samples = vec![];
    let layout_n = layout_check(ctx, &mut t);
    t.n += layout_n;
    let mut abi_facts = json!({});
    let mut libs = vec![];
    for (static_link, label) in [(false, "libclockbound.so"), (true, "libclockbound.a")] {
        match build_c(ctx, static_link) {
            Err(e) => {
                t.add("C17:header-does-not-compile-or-link", e, json!({"check": "C17", "part": "build", "library": label}));
            }
            Ok(bin) => match differential(ctx, &bin, label, &mut t, &mut samples) {
                Ok((n, abi)) => {
                    t.n += n;
                    abi_facts = json!(abi);
                    libs.push(json!({"library": label, "cases": n}));
                }
                Err(e) => {
                    if e.contains("terminated while processing") {
                        t.add("C17:c-library-crashes", e, json!({"check": "C17", "part": "differential", "library": label}));
                    } else if e.contains("did not return within") {
                        t.add("C17:c-library-does-not-return", format!("{e} (the Rust client answered the same case at once)"), json!({"check": "C17", "part": "differential", "library": label}));
                    } else {
                        machinery_failure(&e);
                    }
                }
            },
        }
    }
    let coverage = cov(vec![
        ("evaluations", json!(t.n)),
        ("distinct_nontrivial", json!(t.nontrivial)),
        ("rule", json!("layout: product of field alphabets x 3 statuses written by the real ShmWriter and decoded from the file with offsets transcribed from docs/PROTOCOL.md; ABI: a C program compiled against clockbound.h and linked with the freshly built shared and static library, compared with the Rust client on the same segment at the same virtual instant over a record x age grid, injected clock failures, the C16 file alphabet, sequences of segment mutations under open contexts, and one failing open/read/mmap (6 errno values) during the open; all distinct; non-trivial = error cases and non-Unknown records")),
        ("samples", json!(samples)),
        ("layout_records", json!(layout_n)),
        ("differential", json!(libs)),
        ("abi_as_compiled_from_the_header", abi_facts),
        ("answer_classes", json!(t.classes)),
        ("violation_counts_by_class", json!(t.counts)),
        ("exhaustive", json!(true)),
        ("exhaustive_of", json!("the stated alphabets")),
    ]);
    finish(ctx, Outcome { level: "exploration", coverage, assumptions: vec!["the C program defines clock_gettime itself; the library's clock reads resolve to it (shared library: -rdynamic; static library: link order)".into(), "the magic number is accepted in any of the three readings the document allows (byte list, native-endian u64, two native-endian u32)".into()], violations: t.kept })
}
