//! C07: the published bound against the exact value of |offset| + dispersion + delay/2 (+ PHC).
//! Wire-level tracking replies -> Reply::deserialize -> real process_messages -> published record.

use crate::common::par;
use crate::common::rec::Rec;
use crate::common::report::{cov, finish, machinery_failure, Ctx, Outcome, Tier, Violation};
use crate::common::vclock::{self, VClock};
use crate::histmc::pipeline::{self, decode_float, dyadic_f64, encode_float, Dyadic, TrackSpec};
use clock_bound_d::Message;
use serde_json::{json, Value};
use std::collections::BTreeMap;

/// Minimal 256-bit unsigned integer (hi, lo).
#[derive(Clone, Copy, Debug, PartialEq, Eq, PartialOrd, Ord)]
struct U256(u128, u128);

impl U256 {
    fn mul_u128_u64(n: u128, m: u64) -> U256 {
        let (n1, n0) = (n >> 64, n & u64::MAX as u128);
        let a = n1 * m as u128; // < 2^128 as long as n1 < 2^64
        let b = n0 * m as u128;
        let lo = (a << 64).wrapping_add(b);
        let carry = if lo < b { 1 } else { 0 };
        U256((a >> 64) + carry, lo)
    }
    fn add(self, o: U256) -> U256 {
        let lo = self.1.wrapping_add(o.1);
        U256(self.0 + o.0 + if lo < self.1 { 1 } else { 0 }, lo)
    }
    fn sub(self, o: U256) -> U256 {
        let lo = self.1.wrapping_sub(o.1);
        U256(self.0 - o.0 - if self.1 < o.1 { 1 } else { 0 }, lo)
    }
    fn shr(self, k: u32) -> U256 {
        if k == 0 {
            self
        } else if k < 128 {
            U256(self.0 >> k, (self.1 >> k) | (self.0 << (128 - k)))
        } else {
            U256(0, self.0 >> (k - 128))
        }
    }
    /// ceil(self / 2^k) as i128 (caller guarantees it fits)
    fn ceil_shr(self, k: u32) -> i128 {
        let q = self.shr(k);
        let rem_nonzero = if k < 128 { self.1 & ((1u128 << k) - 1) != 0 } else { self.1 != 0 || (self.0 & ((1u128 << (k - 128)) - 1)) != 0 };
        q.1 as i128 + if rem_nonzero { 1 } else { 0 }
    }
}

const SCALE: i32 = 90; // values are held as integers in units of 2^-90 s

/// value in units of 2^-SCALE s, or None with the sign of a component too small to represent
fn scaled(d: Dyadic) -> Result<i128, i8> {
    if d.coef == 0 {
        return Ok(0);
    }
    let sh = d.exp2 + SCALE;
    if sh >= 0 {
        Ok((d.coef as i128) << sh)
    } else if -sh < 30 {
        // exactly representable only if the low bits are zero
        let m = d.coef as i128;
        if m & ((1 << -sh) - 1) == 0 {
            Ok(m >> -sh)
        } else {
            Err(if d.coef > 0 { 1 } else { -1 })
        }
    } else {
        Err(if d.coef > 0 { 1 } else { -1 })
    }
}

/// Accepted range of the published bound for one report, or None if the report is outside the
/// meaningful range (some |value| >= 2^30 s, negative delay or dispersion).
pub fn accepted_bound(t: &TrackSpec, phc: i64) -> Option<(i128, i128)> {
    let off = decode_float(t.offset_bits);
    let delay = decode_float(t.delay_bits);
    let disp = decode_float(t.disp_bits);
    for d in [off, delay, disp] {
        if dyadic_f64(d).abs() >= (1u64 << 30) as f64 {
            return None;
        }
    }
    if delay.coef < 0 || disp.coef < 0 {
        return None;
    }
    // exact sum in units of 2^-90 s; components below that resolution widen the range by one unit each
    let mut n: i128 = 0;
    let mut tiny = 0u128;
    let abs_off = Dyadic { coef: off.coef.abs(), exp2: off.exp2 };
    let half_delay = Dyadic { coef: delay.coef, exp2: delay.exp2 - 1 };
    for d in [abs_off, disp, half_delay] {
        match scaled(d) {
            Ok(v) => n += v,
            Err(_) => tiny += 1,
        }
    }
    let n = n as u128;
    let t256 = U256::mul_u128_u64(n, 1_000_000_000); // units of 2^-90 ns
    let delta = t256.shr(50);
    let lo = t256.sub(delta).ceil_shr(SCALE as u32);
    let hi = t256.add(delta).add(U256(0, tiny * 1_000_000_000)).ceil_shr(SCALE as u32);
    Some((lo + phc as i128, hi + phc as i128))
}

struct Tally {
    evaluated: u64,
    judged: u64,
    nontrivial: u64,
    counts: BTreeMap<String, u64>,
    kept: Vec<Violation>,
    samples: Vec<Value>,
}

impl Tally {
    fn new() -> Tally {
        Tally { evaluated: 0, judged: 0, nontrivial: 0, counts: BTreeMap::new(), kept: vec![], samples: vec![] }
    }
    fn merge(&mut self, o: Tally) {
        self.evaluated += o.evaluated;
        self.judged += o.judged;
        self.nontrivial += o.nontrivial;
        for (k, v) in o.counts {
            *self.counts.entry(k).or_insert(0) += v;
        }
        for v in o.kept {
            if self.kept.iter().filter(|x| x.signature == v.signature).count() < 2 {
                self.kept.push(v);
            }
        }
        if self.samples.len() < 6 {
            self.samples.extend(o.samples);
        }
    }
    fn add(&mut self, sig: impl Into<String>, text: String, replay: Value) {
        let sig: String = sig.into();
        let n = self.counts.entry(sig.clone()).or_insert(0);
        *n += 1;
        if *n <= 2 {
            self.kept.push(Violation { signature: sig, text, replay });
        }
    }
}

const NOW_REAL: i128 = 1_700_000_000_000_000_000;
const NOW_MONO: i128 = 5_000_000_000_000;

fn spec_json(t: &TrackSpec, phc: i64) -> Value {
    json!({"offset_bits": t.offset_bits, "offset_s": dyadic_f64(decode_float(t.offset_bits)), "delay_bits": t.delay_bits, "delay_s": dyadic_f64(decode_float(t.delay_bits)),
           "dispersion_bits": t.disp_bits, "dispersion_s": dyadic_f64(decode_float(t.disp_bits)), "phc_error_bound_ns": phc})
}

/// Run a batch of reports through the real pipeline; returns the published bounds.
fn publish(batch: &[(TrackSpec, i64)]) -> Result<Vec<i64>, String> {
    vclock::arm(VClock { real_ns: NOW_REAL, mono_ns: NOW_MONO, auto_advance_ns: 0, fail_errno: 0, fail_clock: -1 });
    let as_of = libc::timespec { tv_sec: 5000, tv_nsec: 0 };
    let msgs: Vec<Message> = batch.iter().map(|(t, phc)| Message::ClockErrorBoundData((pipeline::tracking_of(t), *phc, as_of))).collect();
    let r = std::panic::catch_unwind(|| pipeline::published_for(msgs, 1000));
    vclock::disarm();
    match r {
        Ok(recs) => {
            if recs.len() != batch.len() {
                return Err(format!("{} publications for {} reports", recs.len(), batch.len()));
            }
            Ok(recs.iter().map(|r: &Rec| r.bound).collect())
        }
        Err(p) => Err(p.downcast_ref::<&str>().map(|s| s.to_string()).or_else(|| p.downcast_ref::<String>().cloned()).unwrap_or_else(|| "panic".into())),
    }
}

fn judge_batch(batch: &[(TrackSpec, i64)], tally: &mut Tally) {
    // only reports in the meaningful range are fed (outside it the f64 -> i64 conversion saturates by design)
    let fed: Vec<(TrackSpec, i64)> = batch.iter().filter(|(t, p)| accepted_bound(t, *p).is_some()).cloned().collect();
    tally.evaluated += batch.len() as u64;
    if fed.is_empty() {
        return;
    }
    match publish(&fed) {
        Ok(bounds) => {
            for ((t, phc), got) in fed.iter().zip(bounds) {
                let (lo, hi) = accepted_bound(t, *phc).unwrap();
                tally.judged += 1;
                let off = decode_float(t.offset_bits);
                if off.coef != 0 {
                    tally.nontrivial += 1;
                }
                let g = got as i128;
                if g < lo || g > hi {
                    let sign = if off.coef < 0 { "negative-offset" } else { "non-negative-offset" };
                    let dir = if g < lo { "too-small" } else { "too-large" };
                    tally.add(
                        format!("C07:{dir}:{sign}"),
                        format!("offset {:e} s, delay {:e} s, dispersion {:e} s, PHC {} ns: published bound {} ns, |offset| + dispersion + delay/2 rounded up is {}..{} ns", dyadic_f64(off), dyadic_f64(decode_float(t.delay_bits)), dyadic_f64(decode_float(t.disp_bits)), phc, got, lo, hi),
                        spec_json(t, *phc),
                    );
                }
                if g < 0 && lo >= 0 {
                    tally.add("C07:negative-bound", format!("published bound {got} ns is negative"), spec_json(t, *phc));
                }
                if tally.samples.len() < 3 && tally.judged % 7919 == 1 {
                    tally.samples.push(json!({"report": spec_json(t, *phc), "published_bound_ns": got, "accepted": [lo.to_string(), hi.to_string()]}));
                }
            }
        }
        Err(e) => {
            // find the culprit by bisection so the replay names one report
            if fed.len() == 1 {
                tally.add("C07:panic", format!("the daemon panicked on a report in the meaningful range: {e}"), spec_json(&fed[0].0, fed[0].1));
            } else {
                let (a, b) = fed.split_at(fed.len() / 2);
                judge_batch(a, tally);
                judge_batch(b, tally);
            }
        }
    }
}

fn field_alphabet(signed: bool, tier: Tier) -> Vec<u32> {
    let mut vals: Vec<f64> = vec![0.0, 1e-12, 3e-10, 1e-9, 1.5e-9, 1e-6, 0.000999, 0.007, 0.02, 0.1, 0.5, 1.0, 1.000000001, 16.0, 1000.0];
    if tier == Tier::Thorough {
        vals.extend([2e-9, 7.7e-8, 0.001, 0.0625, 0.25, 3.0, 100.0, 86400.0, 1e6, 5e8]);
    }
    let mut bits: Vec<u32> = vec![];
    for v in &vals {
        bits.push(encode_float(*v));
        if signed && *v != 0.0 {
            bits.push(encode_float(-*v));
        }
    }
    // raw encodings: smallest positive / negative coefficient at the extreme exponents, largest coefficient
    let raw: &[u32] = &[0x0000_0001, 0x8000_0001, 0x7E00_0001, 0x00FF_FFFF, 0x0100_0000 | (5 << 25)];
    for r in raw {
        bits.push(*r);
        if signed {
            bits.push((*r & 0xFE00_0000) | ((0u32.wrapping_sub(*r & 0x01FF_FFFF)) & 0x01FF_FFFF));
        }
    }
    bits.sort();
    bits.dedup();
    if !signed {
        bits.retain(|b| decode_float(*b).coef >= 0);
    }
    bits
}

fn replay(path: &std::path::Path) -> i32 {
    let doc: Value = serde_json::from_str(&std::fs::read_to_string(path).expect("replay file")).expect("json");
    let c = &doc["case"];
    let t = TrackSpec { ref_id: 0, leap: 0, ref_time_ns: NOW_REAL, offset_bits: c["offset_bits"].as_u64().unwrap() as u32, delay_bits: c["delay_bits"].as_u64().unwrap() as u32, disp_bits: c["dispersion_bits"].as_u64().unwrap() as u32, interval_bits: encode_float(16.0) };
    let phc = c["phc_error_bound_ns"].as_i64().unwrap();
    let a = publish(&[(t, phc)]);
    let b = publish(&[(t, phc)]);
    println!("report {}", spec_json(&t, phc));
    println!("published bound: {:?}; accepted range: {:?}", a, accepted_bound(&t, phc));
    if a != b {
        println!("NON-DETERMINISTIC replay");
        return 2;
    }
    0
}

/// Where the PHC term comes from is decided in `main()`, before any of the code the sweeps drive: the interface
/// named on the command line is looked up in /sys, and the attribute found there is what the polling thread reads.
/// Through the release binary (procmc/e2e.rs), with the stand-in chronyd naming the PHC as its reference:
/// an interface with a PTP hardware clock (the published bound carries its error bound), and interfaces that have
/// no device behind them (a bond, `lo`: /sys/devices/virtual/net/<name>) - for these there is no PHC error bound
/// to add, so nothing Synchronized may be published (the unmodified daemon refuses to start).
fn end_to_end(ctx: &Ctx, tally: &mut Tally) -> Value {
    use crate::procmc::e2e::{self, PhcFile, Scenario, ID_PHC, IFACE};
    let bin = e2e::binary(ctx);
    if !std::path::Path::new(&bin).exists() {
        return json!({"skipped": format!("release binary {bin} not built")});
    }
    let args = |i: &str| vec!["-r".to_string(), "PHC0".into(), "-i".into(), i.to_string()];
    let scenarios = vec![
        Scenario { name: "-r PHC0 -i <interface with a PTP hardware clock, error bound 50000 ns>", args: args(IFACE), chronyd: Some((ID_PHC, 0)), phc: PhcFile::Value(50_000), observe_ms: 2500, wait_for_synchronized: 1, virtual_ifaces: vec!["bond0", "lo"], ..Scenario::blank() },
        Scenario { name: "-r PHC0 -i bond0 (an interface without a device: /sys/devices/virtual/net/bond0)", args: args("bond0"), chronyd: Some((ID_PHC, 0)), phc: PhcFile::Value(50_000), observe_ms: 2500, virtual_ifaces: vec!["bond0", "lo"], ..Scenario::blank() },
        Scenario { name: "-r PHC0 -i lo", args: args("lo"), chronyd: Some((ID_PHC, 0)), phc: PhcFile::Value(50_000), observe_ms: 2500, virtual_ifaces: vec!["bond0", "lo"], ..Scenario::blank() },
        Scenario { name: "-r PHC0 -i nosuchif0 (no such interface)", args: args("nosuchif0"), chronyd: Some((ID_PHC, 0)), phc: PhcFile::Value(50_000), observe_ms: 2500, ..Scenario::blank() },
    ];
    let results: Vec<Result<Value, String>> = std::thread::scope(|s| {
        let hs: Vec<_> = scenarios.iter().map(|sc| { let bin = bin.clone(); s.spawn(move || e2e::run_scenario(&bin, sc)) }).collect();
        hs.into_iter().map(|h| h.join().unwrap_or_else(|_| Err("scenario thread panicked".into()))).collect()
    });
    let base = accepted_bound(&e2e::spec_for(ID_PHC, 0, 0), 0).unwrap();
    let mut report = vec![];
    for (i, (sc, r)) in scenarios.iter().zip(results).enumerate() {
        let v = match r {
            Ok(v) => v,
            Err(e) => machinery_failure(&format!("C07 end-to-end scenario '{}': {e}", sc.name)),
        };
        if let Some(u) = v["unavailable"].as_str() {
            return json!({"skipped": format!("the sandbox does not allow it: {u}")});
        }
        if e2e::too_slow(&v) {
            report.push(json!({"scenario": sc.name, "verdict": e2e::slow_note(&v)}));
            continue;
        }
        let doc = json!({"check": "C07", "phase": "end to end through the release binary", "scenario": sc.name, "command_line": sc.args, "observed": v});
        let pubs = v["publications"].as_array().cloned().unwrap_or_default();
        let mut synced = 0;
        for p in pubs.iter().filter(|p| p["status"] == 1) {
            synced += 1;
            let b = p["bound_ns"].as_i64().unwrap_or(-1) as i128;
            if i == 0 {
                if b < base.0 + 50_000 || b > base.1 + 50_000 {
                    tally.add("C07:e2e:phc-term", format!("{}: Synchronized record with bound {b} ns; the report's own terms give {}..{} ns and the PHC's error bound is 50000 ns", sc.name, base.0, base.1), doc.clone());
                }
            } else {
                tally.add("C07:e2e:bound-without-the-phc-term", format!("{}: chronyd's reference is the PHC the daemon was told about, the interface has no PHC error bound to read, yet a Synchronized record with bound {b} ns was published (the report's own terms alone give {}..{} ns): the PHC's own error is not in it", sc.name, base.0, base.1), doc.clone());
            }
        }
        if i == 0 && synced == 0 {
            tally.add("C07:e2e:never-synchronized", format!("{}: no Synchronized record within {} ms (daemon exit status {})", sc.name, sc.observe_ms, v["daemon_exit_status"]), doc.clone());
        }
        report.push(json!({"scenario": sc.name, "publications": pubs.len(), "synchronized_publications": synced, "daemon_exit_status": v["daemon_exit_status"], "machine": v["machine"]}));
    }
    json!({"scenarios": report})
}

pub fn run(ctx: &Ctx) -> i32 {
    crate::common::report::quiet_panics();
    pipeline::install();
    if let Err(e) = pipeline::wire_self_test() {
        machinery_failure(&e);
    }
    if let Some(p) = &ctx.replay {
        return replay(p);
    }
    let tier = ctx.tier;
    let offs = field_alphabet(true, tier);
    let delays = field_alphabet(false, tier);
    let disps = field_alphabet(false, tier);
    let phcs: Vec<i64> = vec![0, 1, 12345, 1 << 40];
    let base = TrackSpec { ref_id: 0, leap: 0, ref_time_ns: NOW_REAL, offset_bits: 0, delay_bits: 0, disp_bits: 0, interval_bits: encode_float(16.0) };
    // 1. cross product of the per-field alphabets
    let parts = par::map(offs.len(), |i| {
        let mut tally = Tally::new();
        let mut batch = vec![];
        for d in &delays {
            for s in &disps {
                for p in &phcs {
                    batch.push((TrackSpec { offset_bits: offs[i], delay_bits: *d, disp_bits: *s, ..base }, *p));
                }
            }
        }
        judge_batch(&batch, &mut tally);
        tally
    });
    let mut tally = Tally::new();
    for p in parts {
        tally.merge(p);
    }
    let product = tally.evaluated;
    // 1b. the PHC term through the real poller: reference id = the configured PHC, its error bound read from a
    // file, for every variant of the report fields that should not matter (stratum, source address, ...)
    let mut poller_cases = 0u64;
    {
        use crate::histmc::pipeline::{Answer, PollerLife, Query, AUX_VARIANTS};
        let dir = ctx.scratch();
        const ID: u32 = 0x50484330;
        for aux in AUX_VARIANTS {
            pipeline::set_aux_variant(aux);
            for (o, d, s) in [(0.007f64, 0.1f64, 0.02f64), (-0.000_2, 0.000_05, 0.000_01), (0.0, 0.0, 0.0)] {
                for phc in [1i64, 12_345, 48_000, 1 << 40] {
                    poller_cases += 1;
                    let f = dir.join("phc_error_bound");
                    let _ = std::fs::write(&f, format!("{phc}\n"));
                    let spec = TrackSpec { ref_id: ID, leap: 0, ref_time_ns: NOW_REAL - 1_000_000_000, offset_bits: encode_float(o), delay_bits: encode_float(d), disp_bits: encode_float(s), interval_bits: encode_float(16.0) };
                    vclock::arm(VClock { real_ns: NOW_REAL, mono_ns: NOW_MONO, auto_advance_ns: 0, fail_errno: 0, fail_clock: -1 });
                    let r = std::panic::catch_unwind(std::panic::AssertUnwindSafe(|| {
                        let mut life = PollerLife::new();
                        let msgs = life.poll_once(Some(clock_bound_d::PhcInfo { refid: ID, sysfs_error_bound_path: f.clone() }), Query { answer: Answer::Wire(pipeline::tracking_wire(&spec, 9)), latency_ns: 0 });
                        pipeline::published_for(msgs, 1000)
                    }));
                    vclock::disarm();
                    let (lo, hi) = accepted_bound(&spec, phc).unwrap();
                    let doc = json!({"route": "through the poller, PHC configured and matching", "report_field_variant": aux, "report": spec_json(&spec, phc)});
                    match r {
                        Ok(recs) if recs.len() == 1 => {
                            tally.evaluated += 1;
                            tally.judged += 1;
                            let g = recs[0].bound as i128;
                            if g < lo || g > hi {
                                tally.add(if g < lo { "C07:phc-term-missing-or-too-small" } else { "C07:phc-term-too-large" }, format!("PHC is the reference (error bound {phc} ns, report field variant {aux}): published bound {g} ns, expected {lo}..{hi} ns"), doc);
                            }
                        }
                        Ok(recs) => tally.add("C07:poller-route-publications", format!("{} publications for one poll", recs.len()), doc),
                        Err(_) => tally.add("C07:panic", "the poller or the writer loop panicked".into(), doc),
                    }
                }
            }
        }
        pipeline::set_aux_variant(0);
        // 1b'. the error bound attribute is a genuine kernel attribute file: st_size says 4096 (sysfs) or 0 (procfs)
        // whatever the content is, and the content has no EOF marker other than a short read
        for attr in ["/sys/class/net/lo/mtu", "/proc/sys/kernel/pid_max", "/sys/kernel/mm/transparent_hugepage/khugepaged/pages_to_scan"] {
            let value: i64 = match std::fs::read_to_string(attr).ok().and_then(|t| t.trim().parse().ok()) {
                Some(v) => v,
                None => continue,
            };
            poller_cases += 1;
            let spec = TrackSpec { ref_id: ID, leap: 0, ref_time_ns: NOW_REAL - 1_000_000_000, offset_bits: encode_float(0.0002), delay_bits: encode_float(0.00005), disp_bits: encode_float(0.00001), interval_bits: encode_float(16.0) };
            vclock::arm(VClock { real_ns: NOW_REAL, mono_ns: NOW_MONO, auto_advance_ns: 0, fail_errno: 0, fail_clock: -1 });
            let r = std::panic::catch_unwind(std::panic::AssertUnwindSafe(|| {
                let mut life = PollerLife::new();
                let msgs = life.poll_once(Some(clock_bound_d::PhcInfo { refid: ID, sysfs_error_bound_path: attr.into() }), Query { answer: Answer::Wire(pipeline::tracking_wire(&spec, 9)), latency_ns: 0 });
                pipeline::published_for(msgs, 1000)
            }));
            vclock::disarm();
            let (lo, hi) = accepted_bound(&spec, value).unwrap();
            let doc = json!({"route": "through the poller, error bound read from a genuine kernel attribute", "attribute": attr, "value": value, "report": spec_json(&spec, value)});
            match r {
                Ok(recs) if recs.len() == 1 => {
                    tally.evaluated += 1;
                    tally.judged += 1;
                    let g = recs[0].bound as i128;
                    if recs[0].status != 1 || g < lo || g > hi {
                        tally.add("C07:phc-term-missing-or-too-small", format!("the PHC error bound is read from {attr} (a kernel attribute holding {value}): published status {} and bound {g} ns, expected Synchronized with {lo}..{hi} ns", recs[0].status), doc);
                    }
                }
                Ok(recs) => tally.add("C07:poller-route-publications", format!("{} publications for one poll", recs.len()), doc),
                Err(_) => tally.add("C07:panic", "the poller or the writer loop panicked".into(), doc),
            }
        }
        // 1c. the PHC's error bound changes while one poller lives (one invocation of the real polling loop, the
        // attribute is a sysfs-like file: same metadata whatever it contains): every poll adds the current value
        {
            let f = dir.join("phc_error_bound_lifetime");
            let values: Vec<i64> = vec![1000, 250_000, 4_000_000, 90_000, 90_000, 1, 1 << 40, 0];
            let spec = TrackSpec { ref_id: ID, leap: 0, ref_time_ns: NOW_REAL - 1_000_000_000, offset_bits: encode_float(0.0002), delay_bits: encode_float(0.00005), disp_bits: encode_float(0.00001), interval_bits: encode_float(16.0) };
            vclock::arm(VClock { real_ns: NOW_REAL, mono_ns: NOW_MONO, auto_advance_ns: 0, fail_errno: 0, fail_clock: -1 });
            let (vals, f2) = (values.clone(), f.clone());
            let r = std::panic::catch_unwind(std::panic::AssertUnwindSafe(|| {
                let mut life = PollerLife::new();
                let msgs = life.run_lifetime(
                    Some(clock_bound_d::PhcInfo { refid: ID, sysfs_error_bound_path: f.clone() }),
                    vals.len(),
                    move |k| {
                        pipeline::write_sysfs_like(&f2, vals[k]);
                        Query { answer: Answer::Wire(pipeline::tracking_wire(&spec, 9)), latency_ns: 0 }
                    },
                    |_| {},
                );
                msgs.into_iter().map(|m| pipeline::published_for(m, 1000)).collect::<Vec<_>>()
            }));
            vclock::disarm();
            match r {
                Ok(per_poll) => {
                    for (k, recs) in per_poll.iter().enumerate() {
                        poller_cases += 1;
                        let (lo, hi) = accepted_bound(&spec, values[k]).unwrap();
                        let doc = json!({"route": "through the poller, one lifetime, PHC error bound changing between polls", "poll": k, "phc_values_ns": values, "report": spec_json(&spec, values[k])});
                        match recs.first() {
                            Some(rec) if recs.len() == 1 => {
                                tally.evaluated += 1;
                                tally.judged += 1;
                                let g = rec.bound as i128;
                                if g < lo || g > hi {
                                    tally.add(if g < lo { "C07:phc-term-missing-or-too-small" } else { "C07:phc-term-too-large" }, format!("poll {k} of one poller lifetime in which the PHC's error bound read {:?} ns: published bound {g} ns, expected {lo}..{hi} ns", &values[..=k]), doc);
                                }
                            }
                            _ => tally.add("C07:poller-route-publications", format!("{} publications for poll {k}", recs.len()), doc),
                        }
                    }
                    if per_poll.len() != values.len() {
                        tally.add("C07:poller-route-publications", format!("{} polls took place, {} scripted", per_poll.len(), values.len()), json!({"route": "through the poller, one lifetime"}));
                    }
                }
                Err(_) => tally.add("C07:panic", "the poller or the writer loop panicked".into(), json!({"route": "through the poller, one lifetime"})),
            }
        }
    }
    // 2. whole-field sweeps
    let mut sweeps: Vec<Value> = vec![];
    let fixed: Vec<(u32, u32)> = vec![(encode_float(0.1), encode_float(0.02)), (0, 0)];
    let stride: u64 = ctx.opt_usize("offset_stride").map(|s| s as u64).unwrap_or(tier.pick(65_537, 1));
    let chunk: u64 = 1 << 20;
    let nchunks = ((1u64 << 32) + chunk - 1) / chunk;
    for (d, s) in &fixed {
        let parts = par::map(nchunks as usize, |ci| {
            let mut tally = Tally::new();
            let lo = ci as u64 * chunk;
            let hi = (lo + chunk).min(1 << 32);
            let mut batch = Vec::with_capacity(100_000);
            // the stride is odd and larger than a chunk in the quick tier: start at the first multiple inside the chunk
            let mut b = if stride == 1 { lo } else { ((lo + stride - 1) / stride) * stride };
            while b < hi {
                batch.push((TrackSpec { offset_bits: b as u32, delay_bits: *d, disp_bits: *s, ..base }, 0i64));
                if batch.len() == 100_000 {
                    judge_batch(&batch, &mut tally);
                    batch.clear();
                }
                b += stride;
            }
            judge_batch(&batch, &mut tally);
            tally
        });
        let mut t = Tally::new();
        for p in parts {
            t.merge(p);
        }
        sweeps.push(json!({"field": "offset (all 2^32 encodings, stride given)", "stride": stride, "delay_s": dyadic_f64(decode_float(*d)), "dispersion_s": dyadic_f64(decode_float(*s)), "encodings": t.evaluated, "judged_in_meaningful_range": t.judged}));
        tally.merge(t);
    }
    if tier == Tier::Thorough {
        // all 2^25 coefficients x a few exponents for delay and dispersion
        for (which, exps) in [("delay", [-30i32, -10, -3, 0, 5]), ("dispersion", [-30i32, -10, -3, 0, 5])] {
            let parts = par::map(exps.len() * 32, |k| {
                let mut tally = Tally::new();
                let e = exps[k / 32];
                let sl = (k % 32) as u32;
                let mut batch = Vec::with_capacity(100_000);
                for c in (sl << 20)..((sl + 1) << 20) {
                    let bits = (((e as u32) & 0x7f) << 25) | c;
                    let mut t = TrackSpec { offset_bits: encode_float(-0.007), delay_bits: encode_float(0.1), disp_bits: encode_float(0.02), ..base };
                    if which == "delay" {
                        t.delay_bits = bits
                    } else {
                        t.disp_bits = bits
                    }
                    batch.push((t, 0i64));
                    if batch.len() == 100_000 {
                        judge_batch(&batch, &mut tally);
                        batch.clear();
                    }
                }
                judge_batch(&batch, &mut tally);
                tally
            });
            let mut t = Tally::new();
            for p in parts {
                t.merge(p);
            }
            sweeps.push(json!({"field": format!("{which}: all 2^25 coefficients x exponents {:?}", exps), "encodings": t.evaluated, "judged_in_meaningful_range": t.judged}));
            tally.merge(t);
        }
    }
    let e2e = end_to_end(ctx, &mut tally);
    let coverage = cov(vec![
        ("end_to_end_through_the_release_binary", e2e),
        ("evaluations", json!(tally.evaluated)),
        ("distinct_nontrivial", json!(tally.nontrivial)),
        ("rule", json!("cross product of per-field alphabets of chrony 32-bit float encodings (offset both signs; delay, dispersion; PHC bound) plus sweeps of whole field domains; each report is a distinct wire message; non-trivial = judged reports with a non-zero offset. Reports with some |value| >= 2^30 s or a negative delay/dispersion are outside the statement's meaningful range: enumerated, not fed")),
        ("samples", json!(tally.samples)),
        ("alphabet_product_reports", json!(product)),
        ("phc_term_through_the_real_poller_cases", json!(poller_cases)),
        ("judged_in_meaningful_range", json!(tally.judged)),
        ("sweeps", json!(sweeps)),
        ("offset_alphabet_bits", json!(offs)),
        ("delay_dispersion_alphabet_bits", json!(delays)),
        ("phc_alphabet_ns", json!(phcs)),
        ("violation_counts_by_class", json!(tally.counts)),
        ("exhaustive", json!(stride == 1)),
    ]);
    finish(
        ctx,
        Outcome {
            level: "exploration",
            coverage,
            assumptions: vec![
                "reference: the three chrony floats are exact dyadic rationals; accepted results are ceil(x(1-2^-50)) .. ceil(x(1+2^-50)) ns, the IEEE-double evaluation envelope of the documented formula".into(),
                "replies are built as wire bytes and decoded by chrony-candm's own Reply::deserialize (the builder is cross-checked against it at start-up)".into(),
                "messages enter the real process_messages loop; the bound is read from the published record".into(),
            ],
            violations: tally.kept,
        },
    )
}
