//! C16: every pre-existing file content / path kind of a structured alphabet: what opening it yields
//! (reader, Rust client), and what the daemon's start-up + first publication make of it.

use crate::common::par;
use crate::common::rec::Rec;
use crate::common::report::{cov, finish, Ctx, Outcome, Tier, Violation};
use crate::common::vclock::{self, VClock};
use crate::gridmc::clientgrid::client_err;
use crate::gridmc::clientgrid::Obs;
use clock_bound_client::ClockBoundClient;
use clock_bound_shm::{ShmError, ShmReader, ShmWrite, ShmWriter};
use serde_json::{json, Value};
use std::collections::BTreeMap;
use std::ffi::CString;
use std::path::{Path, PathBuf};

pub const SEG: usize = 72;

#[derive(Clone, Debug)]
pub enum PathKind {
    /// a regular file with this content
    File(Vec<u8>),
    Missing,
    MissingParents,
    Directory,
    DanglingSymlink,
    /// the path is a symbolic link to a regular file with this content
    SymlinkTo(Vec<u8>),
    /// the path's parent directory is a symbolic link (as /var/run is on most systems); regular file with this content
    ViaSymlinkedDir(Vec<u8>),
    /// the path is one of two hard links to a regular file with this content
    HardLink(Vec<u8>),
    /// a regular file with this content whose time stamps are: 1 = 40 minutes old, 2 = from 2001, 3 = one hour ahead
    Stamped(Vec<u8>, u8),
}

impl PathKind {
    /// content of the regular file the path leads to, if it leads to one
    pub fn content(&self) -> Option<&Vec<u8>> {
        match self {
            PathKind::File(b) | PathKind::SymlinkTo(b) | PathKind::ViaSymlinkedDir(b) | PathKind::HardLink(b) | PathKind::Stamped(b, _) => Some(b),
            _ => None,
        }
    }
}

#[derive(Clone, Debug)]
pub struct FileCase {
    pub label: String,
    pub kind: PathKind,
}

pub fn header(magic0: u32, magic1: u32, size: u32, version: u16, generation: u16) -> Vec<u8> {
    let mut b = vec![];
    b.extend_from_slice(&magic0.to_ne_bytes());
    b.extend_from_slice(&magic1.to_ne_bytes());
    b.extend_from_slice(&size.to_ne_bytes());
    b.extend_from_slice(&version.to_ne_bytes());
    b.extend_from_slice(&generation.to_ne_bytes());
    b
}

pub fn record_bytes(r: &Rec) -> Vec<u8> {
    let mut b = vec![];
    for v in [r.as_of_s, r.as_of_ns, r.va_s, r.va_ns, r.bound] {
        b.extend_from_slice(&v.to_ne_bytes());
    }
    b.extend_from_slice(&r.drift.to_ne_bytes());
    b.extend_from_slice(&r.reserved.to_ne_bytes());
    b.extend_from_slice(&r.status.to_ne_bytes());
    b.extend_from_slice(&[0u8; 4]);
    b
}

pub const M0: u32 = 0x414D5A4E;
pub const M1: u32 = 0x43420200;

pub fn old_record() -> Rec {
    Rec { as_of_s: 4000, as_of_ns: 5, va_s: 5000, va_ns: 0, bound: 55_000, drift: 1000, reserved: 0, status: 1 }
}
pub fn new_record() -> Rec {
    Rec { as_of_s: 5000, as_of_ns: 123_456_789, va_s: 6000, va_ns: 0, bound: 77_000_001, drift: 50_000, reserved: 0, status: 2 }
}

/// What the documented header rules say about a file content.
#[derive(Clone, Copy, Debug, PartialEq, Eq)]
pub enum Expect {
    Open,
    NotInitialized,
    Malformed,
    /// both header classes fail: either kind is acceptable
    NotInitializedOrMalformed,
    Syscall(i32),
    /// valid header, but the file is shorter than header + record: opening may succeed or report malformed
    OpenOrMalformed,
}

pub fn reference(kind: &PathKind) -> Expect {
    match kind {
        PathKind::Missing | PathKind::MissingParents | PathKind::DanglingSymlink => Expect::Syscall(libc::ENOENT),
        PathKind::Directory => Expect::Syscall(libc::EISDIR),
        PathKind::File(b) | PathKind::SymlinkTo(b) | PathKind::ViaSymlinkedDir(b) | PathKind::HardLink(b) | PathKind::Stamped(b, _) => {
            if b.len() < 16 {
                return Expect::NotInitialized;
            }
            let m0 = u32::from_ne_bytes(b[0..4].try_into().unwrap());
            let m1 = u32::from_ne_bytes(b[4..8].try_into().unwrap());
            let size = u32::from_ne_bytes(b[8..12].try_into().unwrap());
            let ver = u16::from_ne_bytes([b[12], b[13]]);
            let gen = u16::from_ne_bytes([b[14], b[15]]);
            let uninit = m0 != M0 || m1 != M1 || ver == 0 || gen == 0;
            let small = (size as usize) < SEG;
            match (uninit, small) {
                (true, true) => Expect::NotInitializedOrMalformed,
                (true, false) => Expect::NotInitialized,
                (false, true) => Expect::Malformed,
                (false, false) => {
                    if b.len() < SEG {
                        Expect::OpenOrMalformed
                    } else {
                        Expect::Open
                    }
                }
            }
        }
    }
}

pub fn materialise(case: &FileCase, dir: &Path) -> PathBuf {
    let _ = std::fs::remove_dir_all(dir);
    let _ = std::fs::create_dir_all(dir);
    match &case.kind {
        PathKind::File(b) => {
            let p = dir.join("shm");
            std::fs::write(&p, b).expect("write case file");
            p
        }
        PathKind::Missing => dir.join("shm"),
        PathKind::MissingParents => dir.join("a").join("b").join("shm"),
        PathKind::Directory => {
            let p = dir.join("shm");
            std::fs::create_dir_all(&p).expect("mkdir");
            p
        }
        PathKind::Stamped(b, mode) => {
            let p = dir.join("shm");
            std::fs::write(&p, b).expect("write case file");
            crate::seqmc::engine::stamp_file(&p, *mode);
            p
        }
        PathKind::SymlinkTo(b) => {
            let t = dir.join("the-real-file");
            std::fs::write(&t, b).expect("write case file");
            let p = dir.join("shm");
            std::os::unix::fs::symlink(&t, &p).expect("symlink");
            p
        }
        PathKind::ViaSymlinkedDir(b) => {
            let real = dir.join("real-dir");
            std::fs::create_dir_all(&real).expect("mkdir");
            std::fs::write(real.join("shm"), b).expect("write case file");
            std::os::unix::fs::symlink(&real, dir.join("run")).expect("symlink");
            dir.join("run").join("shm")
        }
        PathKind::HardLink(b) => {
            let t = dir.join("other-name");
            std::fs::write(&t, b).expect("write case file");
            let p = dir.join("shm");
            std::fs::hard_link(&t, &p).expect("link");
            p
        }
        PathKind::DanglingSymlink => {
            let p = dir.join("shm");
            std::os::unix::fs::symlink(dir.join("target-that-does-not-exist"), &p).expect("symlink");
            p
        }
    }
}

pub fn cases(tier: Tier) -> Vec<FileCase> {
    let mut v = vec![];
    let valid = |gen: u16, size: u32, body: &[u8]| {
        let mut b = header(M0, M1, size, 1, gen);
        b.extend_from_slice(body);
        b
    };
    let old = record_bytes(&old_record());
    // 1. truncations (and extensions) of a valid segment
    let full = valid(4, SEG as u32, &old);
    for len in 0..=80usize {
        let mut b = full.clone();
        b.resize(len, 0);
        v.push(FileCase { label: format!("valid segment cut/extended to {len} bytes"), kind: PathKind::File(b) });
    }
    // 2. header product
    let sizes: Vec<u32> = vec![0, 15, 16, 17, 71, 72, 73, 400, 4096, u32::MAX];
    let vers: Vec<u16> = vec![0, 1, 2, 65535];
    let gens: Vec<u16> = vec![0, 1, 2, 65535];
    let magics: Vec<(u32, u32, &str)> = vec![(M0, M1, "ok"), (M0 ^ 1, M1, "first word off"), (M0, M1.swap_bytes(), "second word byte-swapped"), (0, 0, "zero")];
    let bodies: Vec<(Vec<u8>, &str)> = match tier {
        Tier::Quick => vec![(vec![0u8; 56], "zero body"), (old.clone(), "valid record")],
        Tier::Thorough => vec![(vec![0u8; 56], "zero body"), (old.clone(), "valid record"), ([vec![0xFFu8; 48], vec![0, 0, 0, 0, 0, 0, 0, 0]].concat(), "0xFF timestamps and bound")],
    };
    for (m0, m1, ml) in &magics {
        for s in &sizes {
            for ver in &vers {
                for g in &gens {
                    for (body, bl) in &bodies {
                        let mut b = header(*m0, *m1, *s, *ver, *g);
                        b.extend_from_slice(body);
                        v.push(FileCase { label: format!("magic {ml}, declared size {s}, version {ver}, generation {g}, {bl}, file 72 bytes"), kind: PathKind::File(b.clone()) });
                        if *s > SEG as u32 && *s <= 4096 {
                            b.resize(*s as usize, 0);
                            v.push(FileCase { label: format!("magic {ml}, declared size {s}, version {ver}, generation {g}, {bl}, file {s} bytes"), kind: PathKind::File(b) });
                        }
                    }
                }
            }
        }
    }
    // 3. single-byte mutations of a valid segment
    let muts: Vec<u8> = vec![0x00, 0x01, 0x7f, 0x80, 0xff];
    for off in 0..64usize {
        // the status word (64..68) is left alone: an out-of-range enum value is not a file-validation matter
        for m in &muts {
            let mut b = full.clone();
            if b[off] == *m {
                continue;
            }
            b[off] = *m;
            v.push(FileCase { label: format!("valid segment with byte {off} set to {m:#04x}"), kind: PathKind::File(b) });
        }
    }
    if tier == Tier::Thorough {
        // every single-bit flip of the first 64 bytes, and every pair of header bytes set to boundary values
        for off in 0..64usize {
            for bit in 0..8u8 {
                let mut b = full.clone();
                b[off] ^= 1 << bit;
                v.push(FileCase { label: format!("valid segment with bit {bit} of byte {off} flipped"), kind: PathKind::File(b) });
            }
        }
        for o1 in 0..16usize {
            for o2 in (o1 + 1)..16usize {
                for (v1, v2) in [(0u8, 0u8), (0, 0xff), (0xff, 0), (0xff, 0xff), (1, 1)] {
                    let mut b = full.clone();
                    b[o1] = v1;
                    b[o2] = v2;
                    v.push(FileCase { label: format!("valid segment with header bytes {o1},{o2} set to {v1:#04x},{v2:#04x}"), kind: PathKind::File(b) });
                }
            }
        }
        // every value of every one of the first 64 bytes
        for off in 0..64usize {
            for m in 0..=255u8 {
                let mut b = full.clone();
                if b[off] == m || muts.contains(&m) {
                    continue;
                }
                b[off] = m;
                v.push(FileCase { label: format!("valid segment with byte {off} set to {m:#04x}"), kind: PathKind::File(b) });
            }
        }
        // every value of the 16-bit version and generation fields together with three declared sizes
        for field in [12usize, 14] {
            for val in (0..=65535u32).step_by(251) {
                for size in [71u32, 72, 4096] {
                    let mut b = full.clone();
                    b[8..12].copy_from_slice(&size.to_ne_bytes());
                    b[field..field + 2].copy_from_slice(&(val as u16).to_ne_bytes());
                    v.push(FileCase { label: format!("valid segment with declared size {size} and the u16 at offset {field} set to {val}"), kind: PathKind::File(b) });
                }
            }
        }
        // every declared size from 0 to 80 with every file length around it
        for size in 0..=80u32 {
            for len in [16usize, 17, 71, 72, 73, 80] {
                let mut b = header(M0, M1, size, 1, 2);
                b.extend_from_slice(&old);
                b.resize(len, 0);
                v.push(FileCase { label: format!("valid magic/version/generation, declared size {size}, file {len} bytes"), kind: PathKind::File(b) });
            }
        }
    }
    // 4. path kinds
    v.push(FileCase { label: "missing file".into(), kind: PathKind::Missing });
    v.push(FileCase { label: "missing parent directories".into(), kind: PathKind::MissingParents });
    v.push(FileCase { label: "a directory".into(), kind: PathKind::Directory });
    v.push(FileCase { label: "a dangling symlink".into(), kind: PathKind::DanglingSymlink });
    // what the path is, apart from what the file contains: reached through a symbolic link (last component, or
    // the parent directory as with /var/run -> /run), or one of two hard links
    for (what, b) in [("a valid segment", full.clone()), ("an empty file", vec![]), ("a valid header on a 40-byte file", { let mut b = full.clone(); b.truncate(40); b }), ("72 bytes of 0xAA", vec![0xAA; SEG])] {
        v.push(FileCase { label: format!("a symbolic link to {what}"), kind: PathKind::SymlinkTo(b.clone()) });
        v.push(FileCase { label: format!("{what} in a directory reached through a symbolic link"), kind: PathKind::ViaSymlinkedDir(b.clone()) });
        v.push(FileCase { label: format!("one of two hard links to {what}"), kind: PathKind::HardLink(b.clone()) });
        for (m, how) in [(1u8, "last modified 40 minutes ago"), (2, "time stamps from January 2001 (before this boot)"), (3, "time stamps one hour in the future"), (4, "mode 0664"), (5, "mode 0666")] {
            v.push(FileCase { label: format!("{what}, {how}"), kind: PathKind::Stamped(b.clone(), m) });
        }
    }
    v
}

fn shm_kind(e: &ShmError) -> (&'static str, i32, String) {
    match e {
        ShmError::SyscallError(errno, d) => ("syscall", errno.0, d.to_string_lossy().into_owned()),
        ShmError::SegmentNotInitialized => ("not_initialized", 0, String::new()),
        ShmError::SegmentMalformed => ("malformed", 0, String::new()),
        ShmError::CausalityBreach => ("causality", 0, String::new()),
    }
}

fn matches(exp: Expect, got: &Result<(), (&'static str, i32, String)>) -> bool {
    match (exp, got) {
        (Expect::Open, Ok(())) => true,
        (Expect::OpenOrMalformed, Ok(())) => true,
        (Expect::OpenOrMalformed, Err((k, _, _))) => *k == "malformed",
        (Expect::NotInitialized, Err((k, _, _))) => *k == "not_initialized",
        (Expect::Malformed, Err((k, _, _))) => *k == "malformed",
        (Expect::NotInitializedOrMalformed, Err((k, _, _))) => *k == "malformed" || *k == "not_initialized",
        (Expect::Syscall(e), Err((k, errno, _))) => *k == "syscall" && *errno == e,
        _ => false,
    }
}

struct Tally {
    n: u64,
    nontrivial: u64,
    classes: BTreeMap<String, u64>,
    counts: BTreeMap<String, u64>,
    kept: Vec<Violation>,
}

impl Tally {
    fn add(&mut self, sig: &str, text: String, replay: Value) {
        *self.counts.entry(sig.to_string()).or_insert(0) += 1;
        if !self.kept.iter().any(|v| v.signature == sig) {
            self.kept.push(Violation { signature: sig.to_string(), text, replay });
        }
    }
}

fn case_doc(i: usize, c: &FileCase) -> Value {
    json!({"check": "C16", "case_index": i, "label": c.label, "bytes": match c.kind.content() { Some(b) => json!(b), None => Value::Null }})
}

type OpenObs = Result<(), (&'static str, i32, String)>;

fn obs_json(r: &OpenObs) -> Value {
    match r {
        Ok(()) => json!({"ok": true}),
        Err((k, e, d)) => json!({"kind": k, "errno": e, "detail": d}),
    }
}
fn obs_from(v: &Value) -> OpenObs {
    if v["ok"] == true {
        return Ok(());
    }
    let k = match v["kind"].as_str().unwrap_or("") {
        "syscall" => "syscall",
        "not_initialized" => "not_initialized",
        "malformed" => "malformed",
        "causality" => "causality",
        _ => "other",
    };
    Err((k, v["errno"].as_i64().unwrap_or(0) as i32, v["detail"].as_str().unwrap_or("").to_string()))
}

/// what a client sees when it opens the path: [ShmReader::new, ClockBoundClient::new_with_path]
fn client_open(path: &Path) -> Value {
    let cpath = CString::new(path.to_str().unwrap()).unwrap();
    let r1: OpenObs = match ShmReader::new(&cpath) {
        Ok(_) => Ok(()),
        Err(e) => Err(shm_kind(&e)),
    };
    let r2: OpenObs = match ClockBoundClient::new_with_path(path.to_str().unwrap()) {
        Ok(_) => Ok(()),
        Err(e) => match client_err(e) {
            Obs::Err { kind, errno, detail } => Err((kind, errno, detail)),
            _ => unreachable!(),
        },
    };
    // resource accounting: an attach that fails, or succeeds and is dropped again, leaves no descriptor and no
    // mapping behind (a client polls for the daemon to come up; a leak per attempt ends in EMFILE / ENOMEM)
    let (f0, m0) = crate::common::resources();
    for _ in 0..3 {
        let _ = ShmReader::new(&cpath);
        let _ = ClockBoundClient::new_with_path(path.to_str().unwrap());
    }
    let (f1, m1) = crate::common::resources();
    json!([obs_json(&r1), obs_json(&r2), {"fds": [f0, f1], "maps": [m0, m1]}])
}

/// what a new client sees after the daemon's start-up and first publication of `rec`: a list of [signature, text]
fn client_after_publication(path: &Path, rec: &Rec, label: &str) -> Value {
    let cpath = CString::new(path.to_str().unwrap()).unwrap();
    let mut out: Vec<Value> = vec![];
    match ShmReader::new(&cpath) {
        Err(e) => out.push(json!(["C16:not-openable-after-publication", format!("{label}: after the daemon's start-up and first publication ShmReader::new fails with {:?}", shm_kind(&e))])),
        Ok(mut r) => match r.snapshot() {
            Ok(got) if Rec::from_ceb(got) == *rec => {}
            Ok(got) => out.push(json!(["C16:read-back-differs", format!("{label}: published {} but a new client reads {}", rec.json(), Rec::from_ceb(got).json())])),
            Err(e) => out.push(json!(["C16:read-back-fails", format!("{label}: snapshot() after publication fails with {:?}", shm_kind(&e))])),
        },
    }
    // the Rust client library agrees
    vclock::arm(VClock { real_ns: 1_700_000_000_000_000_000, mono_ns: 5001_000_000_000, auto_advance_ns: 0, fail_errno: 0, fail_clock: -1 });
    let want = rec.to_ceb().now();
    let got = ClockBoundClient::new_with_path(path.to_str().unwrap()).and_then(|mut cl| cl.now());
    vclock::disarm();
    match (want, got) {
        (Ok((e, l, s)), Ok(n)) if *n.earliest.as_ref() == e && *n.latest.as_ref() == l && n.clock_status == s => {}
        (w, g) => out.push(json!(["C16:client-read-back-differs", format!("{label}: client library returns {:?}, the published record evaluates to {:?}", g.map(|n| (n.earliest, n.latest, n.clock_status)).map_err(|e| e.kind), w.map(|x| (x.0.tv_sec, x.0.tv_nsec, x.1.tv_sec, x.1.tv_nsec)))])),
    }
    Value::Array(out)
}

const CROSS_NOTE: &str = "[client runs as uid 65534 (not the owner of the file), no capabilities, RLIMIT_MEMLOCK 0; daemon as root] ";

/// `cross`: the client-side steps run in an unprivileged child process (common/privdrop.rs); the daemon-side
/// steps (and the creation of the pre-existing file) stay with the harness user. Same oracles.
fn eval_case(i: usize, c: &FileCase, dir: &Path, t: &mut Tally, env: u8) {
    // env 0: everything in this process; 1: client steps as another, unprivileged user; 2: client steps in a child
    // process that has no descriptor 0 (the segment will be opened as descriptor 0)
    let cross = env != 0;
    let path = materialise(c, dir);
    let exp = reference(&c.kind);
    let note = match env { 1 => CROSS_NOTE, 2 => "[client process started without a standard input: descriptor 0 is free] ", _ => "" };
    let doc = || {
        let mut d = case_doc(i, c);
        if env == 1 {
            d["environment"] = json!("cross-uid");
        } else if env == 2 {
            d["environment"] = json!("no-stdin");
        }
        d
    };
    let client = |f: &dyn Fn() -> Value| -> Value {
        if cross {
            match crate::common::privdrop::run_opts(f, env == 1, env == 2) {
                Ok(v) => v,
                Err(e) => crate::common::report::machinery_failure(&format!("C16 cross-uid phase, {}: {e}", c.label)),
            }
        } else {
            f()
        }
    };
    t.n += 1;
    *t.classes.entry(format!("{exp:?}").split('(').next().unwrap().to_string()).or_insert(0) += 1;
    if exp != Expect::Open {
        t.nontrivial += 1;
    }
    // (a) opening
    let o = client(&|| client_open(&path));
    let (r1, r2) = (obs_from(&o[0]), obs_from(&o[1]));
    if !matches(exp, &r1) {
        t.add(&format!("C16:open:{}", match exp { Expect::Open | Expect::OpenOrMalformed => "valid-refused", Expect::Syscall(_) => "wrong-syscall-error", _ => if r1.is_ok() { "invalid-accepted" } else { "wrong-kind" } }), format!("{note}{}: the documented rules say {exp:?}, ShmReader::new returned {r1:?}", c.label), doc());
    }
    if let Err((_, _, d)) = &r1 {
        if let Expect::Syscall(_) = exp {
            if d.is_empty() {
                t.add("C16:open:syscall-without-detail", format!("{note}{}: system call error without the name of the call", c.label), doc());
            }
        }
    }
    {
        let (f0, f1) = (o[2]["fds"][0].as_u64().unwrap_or(0), o[2]["fds"][1].as_u64().unwrap_or(0));
        let (m0, m1) = (o[2]["maps"][0].as_u64().unwrap_or(0), o[2]["maps"][1].as_u64().unwrap_or(0));
        if f1 > f0 {
            t.add("C16:open:descriptor-leak", format!("{note}{}: three more attach attempts ({r1:?}) took the process from {f0} to {f1} open file descriptors", c.label), doc());
        }
        if m1 > m0 {
            t.add("C16:open:mapping-leak", format!("{note}{}: three more attach attempts ({r1:?}) took the process from {m0} to {m1} memory mappings", c.label), doc());
        }
    }
    if r1 != r2 {
        t.add("C16:client-differs-from-reader", format!("{note}{}: ShmReader::new {r1:?} but ClockBoundClient::new_with_path {r2:?}", c.label), doc());
    }
    // (b) daemon start-up + first publication
    let was_usable = r1.is_ok();
    let len_before = std::fs::metadata(&path).ok().filter(|m| m.is_file()).map(|m| m.len());
    let rec = new_record();
    match ShmWriter::new(&path) {
        Err(e) => {
            if !matches!(c.kind, PathKind::Directory) {
                t.add("C16:daemon-cannot-start", format!("{}: ShmWriter::new failed: {e}", c.label), doc());
            }
        }
        Ok(mut w) => {
            w.write(&rec.to_ceb());
            let vs = client(&|| client_after_publication(&path, &rec, &c.label));
            for v in vs.as_array().cloned().unwrap_or_default() {
                t.add(v[0].as_str().unwrap_or("C16:?"), format!("{note}{}", v[1].as_str().unwrap_or("")), doc());
            }
            // layout of a segment the daemon had to re-create
            // (daemon-side oracles: judged in the same-user pass only, where `was_usable` is the daemon's own view)
            let bytes = if cross { vec![] } else { std::fs::read(&path).unwrap_or_default() };
            if cross {
            } else if !was_usable {
                let mut want = header(M0, M1, SEG as u32, 1, 0);
                want.extend_from_slice(&record_bytes(&rec));
                let gen = if bytes.len() >= 16 { u16::from_ne_bytes([bytes[14], bytes[15]]) } else { 0 };
                if bytes.len() != SEG {
                    t.add("C16:recreated-size", format!("{}: the re-created segment is {} bytes, documented: {SEG}", c.label, bytes.len()), doc());
                } else if bytes[..14] != want[..14] || bytes[16..68] != want[16..68] || gen == 0 || gen % 2 == 1 {
                    t.add("C16:recreated-layout", format!("{}: the re-created segment is not laid out as documented: {:?}", c.label, bytes), doc());
                }
            } else if let Some(lb) = len_before {
                if (bytes.len() as u64) < lb {
                    t.add("C16:usable-segment-shrunk", format!("{}: a segment that could be opened was shrunk from {lb} to {} bytes", c.label, bytes.len()), doc());
                }
            }
            drop(w);
        }
    }
    crate::seqmc::engine::close_leaked_fds(&path);
}

/// "... and never a crash", while the file changes under the client: a client thread opens the segment over and over
/// while another thread of the same (forked) process plays daemon start-ups over files with a valid header and a
/// declared size of 16..71 bytes (the one content class that gets a client past the header check and is repaired by
/// the daemon, which truncates the very inode the client may have mapped). The only thing looked at is whether the
/// process survives (a load through a mapping beyond the end of the file is SIGBUS). Free-running threads for two
/// seconds: a demonstration, not an exploration - loads the client makes through its mapping during open are
/// not behind the explorer's hooks (DESIGN section 9); a verdict only comes from a crash that was observed.
fn open_while_repaired(ctx: &Ctx, t: &mut Tally) -> Value {
    use clock_bound_shm::{ShmReader, ShmWriter};
    let dir = ctx.scratch().join("open-race");
    let _ = std::fs::create_dir_all(&dir);
    let path = dir.join("shm");
    let p2 = path.clone();
    let r = crate::common::privdrop::run_opts(
        move || {
            let stop = std::sync::Arc::new(std::sync::atomic::AtomicBool::new(false));
            let (s2, p3) = (stop.clone(), p2.clone());
            let daemon = std::thread::spawn(move || {
                let mut starts = 0u64;
                let tmp = p3.with_extension("new");
                while !s2.load(std::sync::atomic::Ordering::Relaxed) {
                    for size in [40u32, 16, 71] {
                        let mut b = crate::seqmc::engine::valid_file(2, &crate::seqmc::engine::tagged(5));
                        b[8..12].copy_from_slice(&size.to_ne_bytes());
                        b.truncate(size as usize);
                        let _ = std::fs::write(&tmp, &b);
                        let _ = std::fs::rename(&tmp, &p3);
                        let w = ShmWriter::new(&p3);
                        drop(w);
                        starts += 1;
                    }
                    // (every ShmWriter::new leaves a descriptor open, and they cannot be closed by path while the client
                    // thread opens the same path: stop well below the descriptor limit)
                    if starts >= 6000 {
                        break;
                    }
                }
                s2.store(true, std::sync::atomic::Ordering::Relaxed);
                starts
            });
            let c = std::ffi::CString::new(p2.to_str().unwrap()).unwrap();
            let t0 = crate::common::vclock::raw_now_s();
            let (mut opens, mut ok) = (0u64, 0u64);
            while crate::common::vclock::raw_now_s() - t0 < 2.0 && !stop.load(std::sync::atomic::Ordering::Relaxed) {
                opens += 1;
                if ShmReader::new(&c).is_ok() {
                    ok += 1;
                }
            }
            stop.store(true, std::sync::atomic::Ordering::Relaxed);
            let starts = daemon.join().unwrap_or(0);
            crate::seqmc::engine::close_leaked_fds(&p2);
            json!({"client_opens": opens, "of_which_succeeded": ok, "daemon_start_ups": starts})
        },
        false,
        false,
    );
    match r {
        Ok(v) => json!({"kind": "free-running threads for 2 s (a demonstration, not an exploration)", "observed": v, "client_process_survived": true}),
        Err(e) if e.contains("ended abnormally") => {
            t.add("C16:crash-during-open", format!("a client that opens the segment over and over while a starting daemon repairs files with a valid header and a declared size of 16 / 40 / 71 bytes was killed ({e}): an open that races with the daemon's repair must yield an error kind, never a crash"), json!({"check": "C16", "phase": "open while the daemon repairs the file", "observed": e}));
            json!({"kind": "free-running threads for 2 s (a demonstration, not an exploration)", "client_process_survived": false, "observed": e})
        }
        Err(e) => crate::common::report::machinery_failure(&format!("C16 open-while-repaired phase: {e}")),
    }
}

/// "After the daemon's start-up and first publication clients can open it", with the daemon started the way it
/// is in production (the release binary, `main()` included) and the client another user (procmc/e2e.rs).
fn end_to_end(ctx: &Ctx, t: &mut Tally) -> Value {
    use crate::procmc::e2e::{self, PhcFile, Scenario};
    let bin = e2e::binary(ctx);
    if !Path::new(&bin).exists() {
        return json!({"skipped": format!("release binary {bin} not built")});
    }
    let scenarios = vec![
        Scenario { name: "nothing at the segment path, not even its directory", args: vec![], chronyd: None, phc: PhcFile::Absent, preexisting: None, observe_ms: 1200, wait_for_publications: 1, ..Scenario::blank() },
        Scenario { name: "72 bytes of 0xAA at the segment path", args: vec![], chronyd: None, phc: PhcFile::Absent, preexisting: Some(vec![0xAA; SEG]), observe_ms: 1200, wait_for_publications: 1, ..Scenario::blank() },
        Scenario { name: "an empty file at the segment path", args: vec!["--max-drift-rate".into(), "7".into()], chronyd: None, phc: PhcFile::Absent, preexisting: Some(vec![]), observe_ms: 1200, wait_for_publications: 1, ..Scenario::blank() },
        // one of the daemon's output streams cannot be written (a full log disk, a reader of its pipe that is gone)
        Scenario { name: "nothing at the segment path; the daemon's stderr fails every write", stdio_full: 2, observe_ms: 1200, wait_for_publications: 1, ..Scenario::blank() },
        Scenario { name: "9 bytes of garbage at the segment path; the daemon's stdout fails every write", stdio_full: 1, preexisting: Some(b"garbage!\n".to_vec()), observe_ms: 1200, wait_for_publications: 1, ..Scenario::blank() },
        Scenario { name: "a truncated (40-byte) segment at the segment path; the daemon's stdout fails every write", stdio_full: 1, preexisting: Some(vec![0u8; 40]), observe_ms: 1200, wait_for_publications: 1, ..Scenario::blank() },
    ];
    let results: Vec<Result<Value, String>> = std::thread::scope(|s| {
        let hs: Vec<_> = scenarios.iter().map(|sc| { let bin = bin.clone(); s.spawn(move || e2e::run_scenario(&bin, sc)) }).collect();
        hs.into_iter().map(|h| h.join().unwrap_or_else(|_| Err("scenario thread panicked".into()))).collect()
    });
    let mut report = vec![];
    for (sc, r) in scenarios.iter().zip(results) {
        let v = match r {
            Ok(v) => v,
            Err(e) => crate::common::report::machinery_failure(&format!("C16 end-to-end scenario '{}': {e}", sc.name)),
        };
        if let Some(u) = v["unavailable"].as_str() {
            return json!({"skipped": format!("the sandbox does not allow it: {u}")});
        }
        if e2e::too_slow(&v) {
            report.push(json!({"scenario": sc.name, "verdict": e2e::slow_note(&v)}));
            continue;
        }
        let doc = json!({"check": "C16", "phase": "end to end through the release binary", "scenario": sc.name, "observed": v});
        let n = v["publications"].as_array().map(|a| a.len()).unwrap_or(0);
        if n == 0 {
            t.add("C16:e2e:no-publication", format!("{}: the daemon did not publish within {} ms (exit status {})", sc.name, sc.observe_ms, v["daemon_exit_status"]), doc.clone());
        } else if v["opened_by_uid_65534"]["open"] != "ok" {
            if v["opened_by_uid_65534"]["open"] != "not attempted" {
                t.add("C16:e2e:not-openable-by-another-user", format!("{}: after the daemon's start-up and first publication a client running as another user gets {} (segment mode {}, directory mode {})", sc.name, v["opened_by_uid_65534"]["open"], v["segment_mode_octal"], v["directory_mode_octal"]), doc.clone());
            }
        } else if v["opened_by_uid_65534"]["record"].is_null() {
            t.add("C16:e2e:read-back-fails", format!("{}: another user can open the segment but snapshot() fails: {}", sc.name, v["opened_by_uid_65534"]["snapshot"]), doc.clone());
        }
        report.push(json!({"scenario": sc.name, "publications": n, "segment_mode": v["segment_mode_octal"], "directory_mode": v["directory_mode_octal"], "opened_by_uid_65534": v["opened_by_uid_65534"]["open"], "machine": v["machine"]}));
    }
    json!({"scenarios": report})
}

pub fn run(ctx: &Ctx) -> i32 {
    crate::common::report::quiet_panics();
    let all = cases(ctx.tier);
    let base = ctx.scratch();
    if let Some(p) = &ctx.replay {
        let doc: Value = serde_json::from_str(&std::fs::read_to_string(p).expect("replay file")).expect("json");
        if doc["case"]["case_index"].is_null() {
            // the open-while-repaired demonstration: run it again
            let mut t = Tally { n: 0, nontrivial: 0, classes: BTreeMap::new(), counts: BTreeMap::new(), kept: vec![] };
            let v = open_while_repaired(ctx, &mut t);
            println!("{}", serde_json::to_string_pretty(&v).unwrap());
            for k in &t.kept {
                println!("  {} :: {}", k.signature, k.text);
            }
            return 0;
        }
        let i = doc["case"]["case_index"].as_u64().unwrap() as usize;
        let mut t = Tally { n: 0, nontrivial: 0, classes: BTreeMap::new(), counts: BTreeMap::new(), kept: vec![] };
        let env = if doc["case"]["environment"] == "cross-uid" { 1 } else if doc["case"]["environment"] == "no-stdin" { 2 } else { 0 };
        eval_case(i, &all[i], &base.join("replay"), &mut t, env);
        println!("case {i}: {}{}", all[i].label, ["", " (client steps as uid 65534, no capabilities, RLIMIT_MEMLOCK 0)", " (client steps in a process without descriptor 0)"][env as usize]);
        for v in &t.kept {
            println!("  {} :: {}", v.signature, v.text);
        }
        if t.kept.is_empty() {
            println!("  no violation");
        }
        return 0;
    }
    // SAFETY: process-wide, before any file is created: the modes of created files are part of the scenario
    unsafe { libc::umask(0o022) };
    // items 0..n: everything as the harness user; n..2n: the same cases with the client steps unprivileged
    let n_cases = all.len();
    let cross_ok = crate::common::privdrop::is_root();
    let parts = par::fork_reduce_ex(
        if cross_ok { 3 * n_cases } else { 2 * n_cases },
        |c| (Tally { n: 0, nontrivial: 0, classes: BTreeMap::new(), counts: BTreeMap::new(), kept: vec![] }, base.join(format!("p{c}"))),
        |acc: &mut (Tally, PathBuf), i| eval_case(i % n_cases, &all[i % n_cases], &acc.1, &mut acc.0, if i < n_cases { 0 } else if i < 2 * n_cases { 2 } else { 1 }),
        |acc| json!({"n": acc.0.n, "nontrivial": acc.0.nontrivial, "classes": acc.0.classes, "counts": acc.0.counts, "kept": acc.0.kept.iter().map(|v| json!({"sig": v.signature, "text": v.text, "replay": v.replay})).collect::<Vec<_>>()}),
    );
    let mut t = Tally { n: 0, nontrivial: 0, classes: BTreeMap::new(), counts: BTreeMap::new(), kept: vec![] };
    for p in parts {
        match p {
            Ok(v) => {
                t.n += v["n"].as_u64().unwrap_or(0);
                t.nontrivial += v["nontrivial"].as_u64().unwrap_or(0);
                for (key, m) in [("classes", &mut t.classes), ("counts", &mut t.counts)] {
                    if let Some(o) = v[key].as_object() {
                        for (k, x) in o {
                            *m.entry(k.clone()).or_insert(0) += x.as_u64().unwrap_or(0);
                        }
                    }
                }
                for k in v["kept"].as_array().cloned().unwrap_or_default() {
                    let sig = k["sig"].as_str().unwrap_or("").to_string();
                    if !t.kept.iter().any(|x| x.signature == sig) {
                        t.kept.push(Violation { signature: sig, text: k["text"].as_str().unwrap_or("").to_string(), replay: k["replay"].clone() });
                    }
                }
            }
            Err((i, status)) => {
                let i = i % n_cases;
                let sig = "C16:crash";
                *t.counts.entry(sig.into()).or_insert(0) += 1;
                t.kept.push(Violation { signature: sig.into(), text: format!("{}: the process crashed (wait status {status}) while opening / repairing this file", all[i].label), replay: case_doc(i, &all[i]) });
            }
        }
    }
    let e2e = end_to_end(ctx, &mut t);
    let race = open_while_repaired(ctx, &mut t);
    let samples: Vec<Value> = [3usize, 90, all.len() - 3].iter().map(|i| json!({"case": all[*i].label, "documented_rules_say": format!("{:?}", reference(&all[*i].kind))})).collect();
    let coverage = cov(vec![
        ("open_while_the_daemon_repairs_the_file", race),
        ("evaluations", json!(t.n)),
        ("distinct_nontrivial", json!(t.nontrivial)),
        ("rule", json!("truncations/extensions of a valid segment at every length 0..80; the product magic x declared size x version x generation x body (file as long as declared where that is <= 4096); every single-byte mutation (5 values) of the first 64 bytes of a valid segment; missing file, missing parents, directory, dangling symlink. All distinct; non-trivial = cases the documented header rules do not accept")),
        ("samples", json!(samples)),
        ("expected_classes", json!(t.classes)),
        ("violation_counts_by_class", json!(t.counts)),
        ("environments", json!({"same_user": "harness user creates the file, runs the daemon steps and the client steps", "no_stdin": "every case again with the client steps in a child process that has no descriptor 0", "cross_uid": if cross_ok { json!({"every case again with": "client steps in a child process", "client": crate::common::privdrop::describe()}) } else { json!("skipped: the harness is not running as root") }})),
        ("end_to_end_through_the_release_binary", e2e),
        ("exhaustive", json!(true)),
        ("exhaustive_of", json!("the stated structured alphabet (not all byte contents)")),
    ]);
    finish(ctx, Outcome { level: "exploration", coverage, assumptions: vec!["segment files live on tmpfs (/dev/shm), as /var/run does on the target systems".into(), "when both header classes fail (not initialised and too small) either error kind is accepted; a valid header on a file shorter than 72 bytes may be opened or reported malformed".into(), "each case runs in a forked worker: a crash is attributed to the case".into()], violations: t.kept })
}
