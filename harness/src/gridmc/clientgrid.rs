//! E4 for C05 / C06 / C14: the full cross product of boundary alphabets for (record, realtime
//! reading, monotonic reading) through the public `ClockErrorBound::now()` (under the virtual
//! clock) and, on a reduced grid, through `ClockBoundClient::now()` over a real segment file,
//! against an exact integer reference model.

use crate::common::par;
use crate::common::rec::{status_name, status_num, Rec};
use crate::common::report::{cov, finish, Ctx, Outcome, Tier, Violation};
use crate::common::vclock::{self, VClock};
use crate::common::{ns_ts, ts_ns, ts_to_ns};
use clock_bound_client::{ClockBoundClient, ClockBoundErrorKind};
use clock_bound_shm::{ShmError, ShmWrite, ShmWriter};
use serde_json::{json, Value};
use std::collections::BTreeMap;

const S: i128 = 1_000_000_000;
const LIMIT_S: i128 = 2_147_483_647; // +/- 68 years

#[derive(Clone, Debug, PartialEq)]
pub enum Obs {
    Ok { earliest: i128, latest: i128, status: u32 },
    Err { kind: &'static str, errno: i32, detail: String },
    Panic(String),
}

impl Obs {
    fn json(&self) -> Value {
        match self {
            Obs::Ok { earliest, latest, status } => json!({"ok": {"earliest_ns": earliest.to_string(), "latest_ns": latest.to_string(), "status": status_name(*status)}}),
            Obs::Err { kind, errno, detail } => json!({"err": {"kind": kind, "errno": errno, "detail": detail}}),
            Obs::Panic(m) => json!({"panic": m}),
        }
    }
}

#[derive(Clone, Copy, Debug)]
pub struct Case {
    pub rec: Rec,
    pub real_ns: i128,
    pub mono_ns: i128,
}

impl Case {
    fn json(&self) -> Value {
        json!({"record": self.rec.json(), "realtime_ns": self.real_ns.to_string(), "monotonic_ns": self.mono_ns.to_string(),
               "age_ns": (self.mono_ns - ts_ns(self.rec.as_of_s, self.rec.as_of_ns)).to_string()})
    }
    fn from_json(v: &Value) -> Case {
        Case {
            rec: Rec::from_json(&v["record"]),
            real_ns: v["realtime_ns"].as_str().unwrap().parse().unwrap(),
            mono_ns: v["monotonic_ns"].as_str().unwrap().parse().unwrap(),
        }
    }
}

fn shm_err(e: ShmError) -> Obs {
    match e {
        ShmError::SyscallError(errno, detail) => Obs::Err { kind: "syscall", errno: errno.0, detail: detail.to_string_lossy().into_owned() },
        ShmError::SegmentNotInitialized => Obs::Err { kind: "not_initialized", errno: 0, detail: String::new() },
        ShmError::SegmentMalformed => Obs::Err { kind: "malformed", errno: 0, detail: String::new() },
        ShmError::CausalityBreach => Obs::Err { kind: "causality", errno: 0, detail: String::new() },
    }
}

pub fn client_err(e: clock_bound_client::ClockBoundError) -> Obs {
    let kind = match e.kind {
        ClockBoundErrorKind::Syscall => "syscall",
        ClockBoundErrorKind::SegmentNotInitialized => "not_initialized",
        ClockBoundErrorKind::SegmentMalformed => "malformed",
        ClockBoundErrorKind::CausalityBreach => "causality",
    };
    Obs::Err { kind, errno: e.errno.0, detail: e.detail }
}

fn panic_msg(e: Box<dyn std::any::Any + Send>) -> String {
    if let Some(s) = e.downcast_ref::<&str>() {
        s.to_string()
    } else if let Some(s) = e.downcast_ref::<String>() {
        s.clone()
    } else {
        "panic".into()
    }
}

/// Route 1: the record's own `now()` under the virtual clock.
pub fn eval_direct(c: &Case, fail: Option<(i32, i32)>) -> Obs {
    let ceb = c.rec.to_ceb();
    let (fail_errno, fail_clock) = fail.unwrap_or((0, -1));
    vclock::arm(VClock { real_ns: c.real_ns, mono_ns: c.mono_ns, auto_advance_ns: 0, fail_errno, fail_clock });
    let r = std::panic::catch_unwind(|| ceb.now());
    vclock::disarm();
    match r {
        Ok(Ok((e, l, s))) => Obs::Ok { earliest: ts_to_ns(&e), latest: ts_to_ns(&l), status: status_num(s) },
        Ok(Err(e)) => shm_err(e),
        Err(p) => Obs::Panic(panic_msg(p)),
    }
}

/// Route 2: a real segment written by the real writer, read by the Rust client library.
pub struct ClientRoute {
    writer: ShmWriter,
    client: ClockBoundClient,
}

impl ClientRoute {
    pub fn new(path: &std::path::Path) -> ClientRoute {
        let _ = std::fs::remove_file(path);
        let mut writer = ShmWriter::new(path).expect("ShmWriter::new on scratch file");
        writer.write(&Rec { as_of_s: 0, as_of_ns: 0, va_s: 0, va_ns: 0, bound: 0, drift: 0, reserved: 0, status: 0 }.to_ceb());
        let client = ClockBoundClient::new_with_path(path.to_str().unwrap()).expect("client open on scratch file");
        ClientRoute { writer, client }
    }
    pub fn eval(&mut self, c: &Case, fail: Option<(i32, i32)>) -> Obs {
        self.writer.write(&c.rec.to_ceb());
        let (fail_errno, fail_clock) = fail.unwrap_or((0, -1));
        vclock::arm(VClock { real_ns: c.real_ns, mono_ns: c.mono_ns, auto_advance_ns: 0, fail_errno, fail_clock });
        let client = &mut self.client;
        let r = std::panic::catch_unwind(std::panic::AssertUnwindSafe(|| client.now()));
        vclock::disarm();
        match r {
            Ok(Ok(n)) => Obs::Ok { earliest: ts_to_ns(n.earliest.as_ref()), latest: ts_to_ns(n.latest.as_ref()), status: status_num(n.clock_status) },
            Ok(Err(e)) => client_err(e),
            Err(p) => Obs::Panic(panic_msg(p)),
        }
    }
}

// ---------------------------------------------------------------------------------------------
// Reference model (exact integers)

/// Status table of C06 (`None` = both FreeRunning and Unknown acceptable: the reading is exactly at
/// void-after, which the statement leaves open).
pub fn ref_status(rec: &Rec, mono_ns: i128) -> Option<u32> {
    let as_of = ts_ns(rec.as_of_s, rec.as_of_ns);
    let va = ts_ns(rec.va_s, rec.va_ns);
    match rec.status {
        0 => Some(0),
        st => {
            if st == 1 && mono_ns < as_of + 5 * S {
                Some(1)
            } else if mono_ns < va {
                Some(2)
            } else if mono_ns == va {
                None
            } else {
                Some(0)
            }
        }
    }
}

struct Sink {
    kept: Vec<Violation>,
    counts: BTreeMap<String, u64>,
}

impl Sink {
    fn new() -> Sink {
        Sink { kept: vec![], counts: BTreeMap::new() }
    }
    fn add(&mut self, sig: String, text: String, replay: Value) {
        let n = self.counts.entry(sig.clone()).or_insert(0);
        *n += 1;
        if *n <= 2 {
            self.kept.push(Violation { signature: sig, text, replay });
        }
    }
    fn merge(&mut self, o: Sink) {
        for (k, v) in o.counts {
            *self.counts.entry(k).or_insert(0) += v;
        }
        self.kept.extend(o.kept);
    }
}

#[derive(Default, Clone)]
struct Stats {
    evaluations: u64,
    ok: u64,
    nontrivial: u64,
    by_class: BTreeMap<String, u64>,
    client_route: u64,
    monotone_pairs: u64,
}

impl Stats {
    fn merge(&mut self, o: &Stats) {
        self.evaluations += o.evaluations;
        self.ok += o.ok;
        self.nontrivial += o.nontrivial;
        self.client_route += o.client_route;
        self.monotone_pairs += o.monotone_pairs;
        for (k, v) in &o.by_class {
            *self.by_class.entry(k.clone()).or_insert(0) += v;
        }
    }
}

struct Alpha {
    as_of_s: Vec<i64>,
    as_of_ns: Vec<i64>,
    v_kinds: Vec<u8>, // 0: 5 s, 1: 10 s, 2: daemon style (sec + 1000, nsec 0)
    bounds: Vec<i64>,
    drifts: Vec<u32>,
    reals: Vec<i128>,
}

fn alphabets(tier: Tier) -> Alpha {
    match tier {
        Tier::Thorough => Alpha {
            as_of_s: vec![-2_100_000_000, -1_700_000_000, -86_400, -1, 0, 1, 2, 1000, 4999, 5000, 86_400, 1_000_000, 1_700_000_000, 2_100_000_000],
            as_of_ns: vec![0, 1, 2, 500, 999, 1000, 1001, 999_999, 1_000_000, 4_000_000, 123_456_789, 500_000_000, 999_000_000, 999_999_000, 999_999_998, 999_999_999],
            v_kinds: vec![0, 1, 2],
            bounds: vec![0, 1, 2, 999, 1000, 10_000, 1_000_000, 77_000_001, 999_999_999, 1_000_000_000, 1 << 31, (1 << 31) + 1, 1 << 32, 1 << 40, 1 << 53, 1 << 59, (1 << 60) - 1],
            drifts: vec![0, 1, 2, 7, 10, 100, 999, 1000, 9_999, 50_000, 65_535, 65_536, 500_000, 1_000_000, 999_999_999, 1_000_000_000, 2_000_000_000, (1 << 31) - 1, 1 << 31, u32::MAX],
            reals: vec![ts_ns(1_700_000_000, 0), ts_ns(1_700_000_000, 999_999_999), ts_ns(-1_000_000, 5), ts_ns(0, 0), ts_ns(2_100_000_000, 123_456_789)],
        },
        // (what used to be the thorough alphabet: a quick run takes a few seconds)
        Tier::Quick => Alpha {
            as_of_s: vec![-2_100_000_000, -86_400, -1, 0, 1, 1000, 5000, 1_700_000_000, 2_100_000_000],
            as_of_ns: vec![0, 1, 999, 1000, 1001, 4_000_000, 500_000_000, 999_999_000, 999_999_999],
            v_kinds: vec![0, 1, 2],
            bounds: vec![0, 1, 999, 10_000, 77_000_001, 999_999_999, 1_000_000_000, 1 << 40, 1 << 53, (1 << 60) - 1],
            drifts: vec![0, 1, 7, 10, 999, 1000, 50_000, 500_000, 1_000_000, 999_999_999, 1_000_000_000, 2_000_000_000, u32::MAX],
            reals: vec![ts_ns(1_700_000_000, 0), ts_ns(1_700_000_000, 999_999_999), ts_ns(-1_000_000, 5), ts_ns(0, 0)],
        },
    }
}

fn void_after(kind: u8, as_of_s: i64, as_of_ns: i64) -> (i64, i64) {
    match kind {
        0 => (as_of_s + 5, as_of_ns),
        1 => (as_of_s + 10, as_of_ns),
        3 => (as_of_s - 11, as_of_ns), // expires before it was taken: nothing the daemon writes, but a record in range
        _ => (as_of_s + 1000, 0),
    }
}

/// Ages (monotonic reading minus as-of), sorted ascending, for a record with the given V.
fn ages_tier(v_ns: i128, blur: i128, tier: Tier) -> Vec<i128> {
    let mut a = ages(v_ns, blur);
    if tier == Tier::Thorough {
        // dense windows around every comparison point of the code, and a geometric sweep of ages
        for centre in [-blur, 0, 5 * S, v_ns] {
            for d in -250..=250i128 {
                a.push(centre + d);
            }
        }
        let mut x: i128 = 2;
        while x < 2_144_000_000 * S {
            a.push(x - 1);
            a.push(x);
            a.push(x + 1);
            x *= 2;
        }
        for k in [3600i128, 36_000, 86_400, 864_000, 31_536_000, 315_360_000] {
            a.push(k * S);
        }
        a.sort();
        a.dedup();
    }
    a
}

/// Ages at which a conversion of the elapsed time to a narrower integer type, in any of the usual
/// units, would wrap: k * 2^w * unit (+ small offsets). A wrapped age looks young again.
pub fn wrap_ages() -> Vec<i128> {
    let mut v = vec![];
    for unit in [1i128, 1_000, 1_000_000, S] {
        for w in [16u32, 31, 32] {
            let base = (1i128 << w) * unit;
            for k in [1i128, 2, 3] {
                for d in [-1i128, 0, 1, S, 4_900_000_000] {
                    v.push(k * base + d);
                }
            }
        }
    }
    v
}

/// Ages decomposed as (whole seconds, nanoseconds), both signs: arithmetic on (tv_sec, tv_nsec) pairs
/// can go wrong in one component independently of the other.
pub fn two_component_ages() -> Vec<i128> {
    let mut v = vec![];
    for s in [0i128, 1, 2, 5, 1000, 3600, 86_400, 31_536_000] {
        for n in [0i128, 1, 999, 1000, 1001, 500_000_000, 999_999_000, 999_999_999] {
            v.push(s * S + n);
            v.push(-(s * S + n));
        }
    }
    v
}

fn ages(v_ns: i128, blur: i128) -> Vec<i128> {
    let mut a: Vec<i128> = vec![
        -4 * S, -1_000_000, -1001, -1000, -999, -1, 0, 1, 999, 1000, 1_000_000, 300_000_000, S - 1, S, 2 * S, 5 * S - 1, 5 * S, 5 * S + 1, 999 * S,
        v_ns - 1, v_ns, v_ns + 1, 3600 * S, 36_000 * S, 2_144_000_000 * S,
        -blur - 1, -blur, -blur + 1,
    ];
    a.extend(two_component_ages());
    a.extend(wrap_ages());
    a.sort();
    a.dedup();
    a
}

/// Measure the causality blur b of the implementation: the monotonic reading may precede as-of
/// by less than b. Returns Err(text) if there is no single threshold.
fn measure_blur(real_ns: i128) -> Result<i128, String> {
    let base = Rec { as_of_s: 1000, as_of_ns: 500_000_000, va_s: 2000, va_ns: 0, bound: 10_000, drift: 1000, reserved: 0, status: 1 };
    let as_of = ts_ns(base.as_of_s, base.as_of_ns);
    let breach = |d: i128| matches!(eval_direct(&Case { rec: base, real_ns, mono_ns: as_of + d }, None), Obs::Err { kind: "causality", .. });
    if !breach(-4 * S) {
        return Err("a monotonic reading 4 s before as-of is not rejected".into());
    }
    if breach(0) {
        return Err("a monotonic reading equal to as-of is rejected".into());
    }
    // largest d < 0 that is a breach
    let (mut lo, mut hi) = (-4 * S, 0i128); // breach(lo), !breach(hi)
    while hi - lo > 1 {
        let mid = lo + (hi - lo) / 2;
        if breach(mid) {
            lo = mid
        } else {
            hi = mid
        }
    }
    let b = -lo;
    // monotone around the threshold and over a coarse scan
    for d in (-b - 64)..=(-b + 64).min(0) {
        if breach(d) != (d <= -b) {
            return Err(format!("causality error is not a single threshold near {b} ns (age {d})"));
        }
    }
    let mut d = -1i128;
    while d > -4 * S {
        if breach(d) != (d <= -b) {
            return Err(format!("causality error is not a single threshold (age {d}, threshold {b})"));
        }
        d = d * 3 - 1;
    }
    Ok(b)
}

fn classify(obs: &Obs) -> String {
    match obs {
        Obs::Ok { status, .. } => format!("ok:{}", status_name(*status)),
        Obs::Err { kind, .. } => format!("err:{kind}"),
        Obs::Panic(_) => "panic".into(),
    }
}

/// All oracles for one observation; `which` selects the property being decided.
fn judge(which: &str, c: &Case, obs: &Obs, blur: i128, route: &str, sink: &mut Sink, st: &mut Stats) -> Option<i128> {
    let as_of = ts_ns(c.rec.as_of_s, c.rec.as_of_ns);
    let va = ts_ns(c.rec.va_s, c.rec.va_ns);
    let age = c.mono_ns - as_of;
    let replay = || json!({"route": route, "case": c.json(), "observed": obs.json()});
    st.evaluations += 1;
    *st.by_class.entry(classify(obs)).or_insert(0) += 1;
    // expected error region (C14)
    let expected_kind: Option<&str> = if c.rec.drift >= 1_000_000_000 {
        Some("malformed")
    } else if age <= -blur {
        Some("causality")
    } else {
        None
    };
    match obs {
        Obs::Panic(m) => {
            if which == "C14" {
                sink.add("C14:panic".into(), format!("now() panicked ({m}) for a record/readings in the meaningful range"), replay());
            }
            if which == "C05" && expected_kind.is_none() {
                // the harness build has overflow checks on: an arithmetic overflow in the width computation
                // surfaces as a panic here and as a silently wrapped (wrong) half-width in a release build
                sink.add("C05:no-interval:panic".into(), format!("now() panicked ({m}) where an interval of half-width bound + drift x age is due (age {age} ns, drift {} ppb); a release build without overflow checks returns a wrapped width instead", c.rec.drift), replay());
            }
            None
        }
        Obs::Err { kind, errno, detail } => {
            if which == "C14" {
                match expected_kind {
                    Some(k) if k == *kind => {
                        if *errno != 0 || !detail.is_empty() {
                            sink.add("C14:error-fields".into(), format!("{kind} error carries errno {errno} / detail {detail:?}"), replay());
                        }
                        st.nontrivial += 1;
                    }
                    Some(k) => sink.add(format!("C14:wrong-error:{k}->{kind}"), format!("expected the {k} error, got {kind}"), replay()),
                    None => sink.add(format!("C14:spurious-error:{kind}"), format!("expected an interval, got the {kind} error (age {age} ns, drift {} ppb)", c.rec.drift), replay()),
                }
            }
            None
        }
        Obs::Ok { earliest, latest, status } => {
            st.ok += 1;
            if which == "C14" {
                if let Some(k) = expected_kind {
                    sink.add(format!("C14:missing-error:{k}"), format!("expected the {k} error (age {age} ns, drift {} ppb), got an interval", c.rec.drift), replay());
                }
                if age < 0 && age > -blur && expected_kind.is_none() {
                    st.nontrivial += 1;
                    if c.real_ns - earliest != c.rec.bound as i128 {
                        sink.add("C14:blur-age-not-zero".into(), format!("inside the blur (age {age} ns) the half-width is {} instead of the stored bound {}", c.real_ns - earliest, c.rec.bound), replay());
                    }
                }
                return None;
            }
            if expected_kind.is_some() {
                return None; // C14's business
            }
            let h_lo = c.real_ns - earliest;
            let h_hi = latest - c.real_ns;
            if which == "C05" {
                if h_lo != h_hi {
                    sink.add("C05:asymmetric".into(), format!("real - earliest = {h_lo} but latest - real = {h_hi}"), replay());
                }
                if earliest > latest {
                    sink.add("C05:inverted".into(), "earliest > latest".into(), replay());
                }
                let d = age.max(0);
                let num = c.rec.drift as i128 * d;
                let p_floor = num.div_euclid(S);
                let p_ceil = -((-num).div_euclid(S));
                let g = h_lo - c.rec.bound as i128;
                // f64 evaluation envelope: exact to << 1 ns up to 10 h of age, relative 2^-50 beyond
                let slack = if d <= 36_000 * S { 1 } else { 2 + (p_ceil >> 50) };
                if g < p_floor - slack {
                    sink.add("C05:width-too-small".into(), format!("half-width {h_lo} = bound {} + {g}, but drift x age = {p_floor} ns", c.rec.bound), replay());
                } else if g > p_ceil + slack {
                    sink.add("C05:width-too-large".into(), format!("half-width {h_lo} = bound {} + {g}, but drift x age = {p_ceil} ns", c.rec.bound), replay());
                }
                if c.rec.drift > 0 && d > 0 && num >= S {
                    st.nontrivial += 1;
                }
                return Some(h_lo);
            }
            if which == "C06" {
                if va - as_of < 5 * S {
                    return None;
                }
                match ref_status(&c.rec, c.mono_ns) {
                    Some(exp) if exp != *status => {
                        let region = if c.mono_ns < as_of + 5 * S { "in-grace" } else if c.mono_ns < va { "before-void" } else { "after-void" };
                        sink.add(
                            format!("C06:status:stored={}:{}:got={}", status_name(c.rec.status), region, status_name(*status)),
                            format!("stored {} at age {age} ns (void-after at {} ns): expected {}, got {}", status_name(c.rec.status), va - as_of, status_name(exp), status_name(*status)),
                            replay(),
                        );
                    }
                    None => {
                        if *status == 1 {
                            sink.add("C06:status:at-void-after:got=Synchronized".into(), "Synchronized reported at void-after".into(), replay());
                        }
                    }
                    _ => {}
                }
                if c.rec.status != 0 {
                    st.nontrivial += 1;
                }
            }
            None
        }
    }
}

fn replay_case(ctx: &Ctx, path: &std::path::Path) -> i32 {
    let doc: Value = serde_json::from_str(&std::fs::read_to_string(path).expect("replay file")).expect("replay json");
    let c = Case::from_json(&doc["case"]["case"]);
    let route_full = doc["case"]["route"].as_str().unwrap_or("direct").to_string();
    // "<route>;inject=<errno>,<clock id, -1 all, -2 every monotonic clock>": the clock read(s) that fail during the call
    let (route, inj) = match route_full.split_once(";inject=") { Some((r, i)) => (r.to_string(), Some(i.to_string())), None => (route_full.clone(), None) };
    let fail = doc["case"]["inject"].as_array().map(|a| (a[0].as_i64().unwrap() as i32, a[1].as_i64().unwrap() as i32))
        .or_else(|| inj.and_then(|i| i.split_once(',').map(|(e, c)| (e.parse().unwrap_or(0), c.parse().unwrap_or(-1)))));
    let obs1 = if route == "client" { ClientRoute::new(&ctx.scratch().join("replay")).eval(&c, fail) } else { eval_direct(&c, fail) };
    let obs2 = if route == "client" { ClientRoute::new(&ctx.scratch().join("replay")).eval(&c, fail) } else { eval_direct(&c, fail) };
    println!("replay route={route} case={}", c.json());
    println!("observed: {}", obs1.json());
    println!("recorded: {}", doc["case"]["observed"]);
    if obs1 != obs2 {
        println!("NON-DETERMINISTIC replay");
        return 2;
    }
    0
}

pub fn run(ctx: &Ctx) -> i32 {
    crate::common::report::quiet_panics();
    if let Some(p) = &ctx.replay {
        return replay_case(ctx, p);
    }
    let which = ctx.prop.as_str();
    let mut al = alphabets(ctx.tier);
    if which == "C14" {
        // C14 quantifies over all records in range, also ones whose void-after precedes their as-of (C05/C06 state
        // their laws for records whose void-after is at least 5 s after as-of)
        al.v_kinds.push(3);
    }
    let mut sink = Sink::new();
    let mut stats = Stats::default();

    // the blur is measured, not assumed (the statement names no number)
    let blur = match measure_blur(al.reals[0]) {
        Ok(b) => b,
        Err(t) => {
            if which == "C14" {
                sink.add("C14:no-single-blur-threshold".into(), t, json!({"probe": "blur measurement on record as_of=(1000, 500000000)"}));
            }
            1000
        }
    };
    if which == "C14" && !(2..=10_000_000).contains(&blur) {
        sink.add("C14:blur-out-of-range".into(), format!("measured causality blur is {blur} ns; expected a clock-granularity tolerance between 2 ns and 10 ms"), json!({"measured_blur_ns": blur.to_string()}));
    }

    let n_as_of = al.as_of_s.len() * al.as_of_ns.len();
    let scratch = ctx.scratch();
    let tier = ctx.tier;
    let results: Vec<(Sink, Stats, Vec<Value>)> = par::map(n_as_of, |idx| {
        let mut sink = Sink::new();
        let mut st = Stats::default();
        let mut samples = vec![];
        let as_of_s = al.as_of_s[idx / al.as_of_ns.len()];
        let as_of_ns = al.as_of_ns[idx % al.as_of_ns.len()];
        let as_of = ts_ns(as_of_s, as_of_ns);
        let mut client = ClientRoute::new(&scratch.join(format!("grid-{idx}")));
        let mut k = 0u64;
        for &vk in &al.v_kinds {
            let (va_s, va_ns) = void_after(vk, as_of_s, as_of_ns);
            let v = ts_ns(va_s, va_ns) - as_of;
            let ages = ages_tier(v, blur, tier);
            for &bound in &al.bounds {
                for &drift in &al.drifts {
                    for status in 0..3u32 {
                        let rec = Rec { as_of_s, as_of_ns, va_s, va_ns, bound, drift, reserved: 0, status };
                        for &real_ns in &al.reals {
                            let mut last_h: Option<(i128, i128)> = None;
                            for &age in &ages {
                                let mono_ns = as_of + age;
                                if mono_ns.abs() > LIMIT_S * S {
                                    continue;
                                }
                                let c = Case { rec, real_ns, mono_ns };
                                let obs = eval_direct(&c, None);
                                let h = judge(which, &c, &obs, blur, "direct", &mut sink, &mut st);
                                if which == "C05" {
                                    if let Some(h) = h {
                                        if let Some((page, ph)) = last_h {
                                            st.monotone_pairs += 1;
                                            if h < ph {
                                                sink.add("C05:shrinks-with-age".into(), format!("half-width {ph} at age {page} ns but {h} at age {age} ns"), json!({"route": "direct", "case": c.json(), "observed": obs.json(), "previous_age_ns": page.to_string()}));
                                            }
                                        }
                                        last_h = Some((age, h));
                                    }
                                }
                                k += 1;
                                // reduced grid through the client library over a real segment
                                if k % (if tier == Tier::Thorough { 101 } else { 7 }) == 0 {
                                    let obs2 = client.eval(&c, None);
                                    st.client_route += 1;
                                    if obs2 != obs {
                                        sink.add(format!("{which}:client-differs"), format!("ClockBoundClient::now() returned {} where ClockErrorBound::now() returned {}", obs2.json(), obs.json()), json!({"route": "client", "case": c.json(), "observed": obs2.json()}));
                                    }
                                }
                                if samples.len() < 2 && k % 1013 == 0 {
                                    samples.push(json!({"case": c.json(), "observed": obs.json()}));
                                }
                            }
                        }
                    }
                }
            }
        }
        (sink, st, samples)
    });
    let mut samples = vec![];
    for (s, st, sm) in results {
        sink.merge(s);
        stats.merge(&st);
        if samples.len() < 6 {
            samples.extend(sm);
        }
    }

    // C05 / C06: a client that cannot read its monotonic clock(s). What the record's real age demands does not
    // change because the client cannot measure it: if such a call returns an interval at all, its width and its
    // status are judged against the real age like any other (an error is C14's subject and is not judged here).
    let mut noclock_cases = 0u64;
    if which == "C05" || which == "C06" {
        let mut client = ClientRoute::new(&scratch.join("noclock"));
        for status in [1u32, 2] {
            for age in [S, 4 * S, 6 * S, 999 * S, 1001 * S, 3 * 3600 * S] {
                for fail in [(libc::EINVAL, libc::CLOCK_MONOTONIC_COARSE), (libc::ENOSYS, libc::CLOCK_MONOTONIC_COARSE), (libc::EINVAL, -2)] {
                    for route in ["direct", "client"] {
                        let rec = Rec { as_of_s: 1000, as_of_ns: 0, va_s: 2000, va_ns: 0, bound: 1_000_000, drift: 50_000, reserved: 0, status };
                        let c = Case { rec, real_ns: al.reals[0], mono_ns: ts_ns(1000, 0) + age };
                        let obs = if route == "direct" { eval_direct(&c, Some(fail)) } else { client.eval(&c, Some(fail)) };
                        noclock_cases += 1;
                        if let Obs::Ok { .. } = obs {
                            let _ = judge(which, &c, &obs, blur, &format!("{route};inject={},{}", fail.0, fail.1), &mut sink, &mut stats);
                        }
                    }
                }
            }
        }
    }
    // C14: error propagation with an injected clock failure, both routes
    let mut inject_cases = 0;
    if which == "C14" {
        let rec = Rec { as_of_s: 1000, as_of_ns: 0, va_s: 2000, va_ns: 0, bound: 10_000, drift: 1000, reserved: 0, status: 1 };
        let c = Case { rec, real_ns: al.reals[0], mono_ns: ts_ns(1001, 0) };
        let mut client = ClientRoute::new(&scratch.join("inject"));
        for errno in [libc::EINVAL, libc::EFAULT, libc::EPERM] {
            for clk in [libc::CLOCK_REALTIME, libc::CLOCK_MONOTONIC_COARSE, -1] {
                for route in ["direct", "client"] {
                    let obs = if route == "direct" { eval_direct(&c, Some((errno, clk))) } else { client.eval(&c, Some((errno, clk))) };
                    inject_cases += 1;
                    stats.evaluations += 1;
                    let good = matches!(&obs, Obs::Err { kind: "syscall", errno: e, detail } if *e == errno && detail == "clock_gettime");
                    if !good {
                        sink.add(format!("C14:clock-failure-not-propagated:{route}"), format!("clock_gettime failing with errno {errno} on clock {clk}: got {}", obs.json()), json!({"route": route, "case": c.json(), "inject": [errno, clk], "observed": obs.json()}));
                    }
                }
            }
        }
    }

    let rule = match which {
        "C05" => "full cross product of boundary alphabets (as-of sec x nsec, void-after kind, age, bound, drift, stored status, realtime reading); every grid point is distinct; non-trivial = interval returned with drift > 0 and age > 0 such that drift x age >= 1 ns (the width law is exercised)",
        "C06" => "same cross product; non-trivial = interval returned for a record whose stored status is not Unknown and whose void-after is >= 5 s after as-of (the status table is exercised)",
        _ => "same cross product plus injected clock_gettime failures; non-trivial = cases in an error region or inside the measured blur window",
    };
    let mut coverage = cov(vec![
        ("evaluations", json!(stats.evaluations)),
        ("distinct_nontrivial", json!(stats.nontrivial)),
        ("rule", json!(rule)),
        ("samples", json!(samples)),
        ("exhaustive", json!(true)),
        ("exhaustive_of", json!("the stated finite alphabet product (not of the full input domain)")),
        ("monotonic_clock_unreadable_cases", json!(noclock_cases)),
        ("alphabets", json!({"as_of_sec": al.as_of_s, "as_of_nsec": al.as_of_ns, "void_after_kinds": al.v_kinds.iter().map(|k| ["as_of+5s", "as_of+10s", "daemon style (sec+1000, nsec 0)", "as_of-11s"][*k as usize]).collect::<Vec<_>>(),
            "bound_nsec": al.bounds, "max_drift_ppb": al.drifts, "realtime_ns": al.reals.iter().map(|r| r.to_string()).collect::<Vec<_>>(),
            "age_ns": ages(1000 * S, blur).iter().map(|a| a.to_string()).collect::<Vec<_>>()})),
        ("outcome_classes", json!(stats.by_class)),
        ("intervals_returned", json!(stats.ok)),
        ("client_library_route_evaluations", json!(stats.client_route)),
        ("measured_causality_blur_ns", json!(blur.to_string())),
        ("pass_with_debug_assertions_on", json!(std::env::var("VERIF_DBG_PASS").unwrap_or_else(|_| if cfg!(debug_assertions) { "this is that pass".into() } else { "not run (the harness was started directly)".into() }))),
        ("violation_counts_by_class", json!(sink.counts)),
    ]);
    if which == "C05" {
        coverage.insert("monotonicity_pairs_checked".into(), json!(stats.monotone_pairs));
    }
    if which == "C14" {
        coverage.insert("injected_clock_failures".into(), json!(inject_cases));
    }
    finish(
        ctx,
        Outcome {
            level: "exploration",
            coverage,
            assumptions: vec![
                "virtual clock: the harness executable interposes clock_gettime, so the two readings are exactly the scripted ones".into(),
                "timestamps within +/- 68 years, bounds below 2^60 ns".into(),
                "harness build has overflow checks on, so an arithmetic overflow in the code under test surfaces as a panic".into(),
            ],
            violations: sink.kept,
        },
    )
}
