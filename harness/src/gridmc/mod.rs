pub mod clientgrid;
