pub mod boundgrid;
pub mod clientgrid;
