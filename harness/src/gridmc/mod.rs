pub mod abi;
pub mod boundgrid;
pub mod clientgrid;
pub mod segfiles;
