//! Baton scheduler for the daemon's real threads (DESIGN.md section 5). Exactly one thread runs; at
//! every scheduling point (send, recv, recv_timeout, join, spawn/start, exit, fault point, chrony
//! query) the running thread publishes the operation it is about to perform and waits to be picked.

use clock_bound_d::verif::{Ctl, FaultAction, RecvCtl};
use std::sync::{Condvar, Mutex};
use std::time::Duration;

#[derive(Clone, Debug, PartialEq)]
pub enum Op {
    Start,
    Send(usize),
    Recv(usize),
    RecvTimeout(usize, u64), // channel, timeout in ns
    Join(usize),
    Fault(&'static str),
    Query,
}

#[derive(Clone, Debug, PartialEq)]
enum St {
    Running,
    Waiting(Op),
    Finished,
}

struct Chan {
    len: usize,
    senders: usize,
}

#[derive(Clone, Debug, Default)]
pub struct Step {
    pub enabled: Vec<usize>,
    /// how many of `enabled` (a suffix) are timeouts fired although another thread could run
    pub unfair: usize,
    pub chosen: usize,
    pub prev: usize,
    pub prev_enabled: bool,
}

#[derive(Clone, Copy, Debug, PartialEq, Eq)]
pub enum FaultKind {
    Panic,
    Return,
}

#[derive(Clone, Copy, Debug, PartialEq, Eq)]
pub struct Fault {
    pub thread: usize,
    /// index of the fault opportunity of that thread at which it fires
    pub at: usize,
    pub kind: FaultKind,
}

pub struct State {
    threads: Vec<St>,
    panicked: Vec<bool>,
    current: usize,
    chans: Vec<Chan>,
    pub prefix: Vec<usize>,
    pub trace: Vec<Step>,
    pub drain: bool,
    pub deadlock: bool,
    pub horizon_hit: bool,
    pub fault: Option<Fault>,
    opp_count: Vec<usize>,
    pub opp_labels: Vec<Vec<String>>,
    pub fault_fired_at_ns: Option<i64>,
    pub fault_label: Option<String>,
    pub fault_inapplicable: bool,
    pub unfair_budget: usize,
    unfair_used: usize,
    pub timeouts_fired: usize,
    pub reverse_keys: bool,
    pub horizon_steps: usize,
    pub horizon_ns: i64,
    pub events: Vec<String>,
    pub log_events: bool,
    epoch: usize,
}

pub struct Sched {
    m: Mutex<State>,
    cv: Condvar,
}

pub static S: Sched = Sched { m: Mutex::new(State::new()), cv: Condvar::new() };

thread_local! { static TID: std::cell::Cell<usize> = const { std::cell::Cell::new(usize::MAX) }; }

pub struct DrainSentinel;
pub struct InjectedPanic;

impl State {
    const fn new() -> State {
        State {
            threads: Vec::new(),
            panicked: Vec::new(),
            current: 0,
            chans: Vec::new(),
            prefix: Vec::new(),
            trace: Vec::new(),
            drain: false,
            deadlock: false,
            horizon_hit: false,
            fault: None,
            opp_count: Vec::new(),
            opp_labels: Vec::new(),
            fault_fired_at_ns: None,
            fault_label: None,
            fault_inapplicable: false,
            unfair_budget: 0,
            unfair_used: 0,
            timeouts_fired: 0,
            reverse_keys: false,
            horizon_steps: 400,
            horizon_ns: i64::MAX,
            events: Vec::new(),
            log_events: false,
            epoch: 0,
        }
    }

    fn strongly_enabled(&self, t: usize) -> bool {
        match &self.threads[t] {
            St::Waiting(op) => match op {
                Op::Start | Op::Send(_) | Op::Fault(_) | Op::Query => true,
                Op::Recv(c) => self.chans[*c].len > 0 || self.chans[*c].senders == 0,
                Op::RecvTimeout(c, _) => self.chans[*c].len > 0 || self.chans[*c].senders == 0,
                Op::Join(t2) => self.threads[*t2] == St::Finished,
            },
            _ => false,
        }
    }

    fn timeout_waiting(&self, t: usize) -> bool {
        matches!(&self.threads[t], St::Waiting(Op::RecvTimeout(c, _)) if self.chans[*c].len == 0 && self.chans[*c].senders > 0)
    }

    /// choose the next thread to run; `me` is the yielding thread
    fn pick(&mut self, me: usize) {
        let n = self.threads.len();
        let mut en: Vec<usize> = vec![];
        if self.strongly_enabled(me) {
            en.push(me);
        }
        for t in 0..n {
            if t != me && self.strongly_enabled(t) {
                en.push(t);
            }
        }
        let mut unfair = 0;
        if en.is_empty() {
            // maximal progress: a timeout fires only when nothing else can run
            if self.timeout_waiting(me) {
                en.push(me);
            }
            for t in 0..n {
                if t != me && self.timeout_waiting(t) {
                    en.push(t);
                }
            }
        } else if self.unfair_used < self.unfair_budget {
            for t in 0..n {
                if self.timeout_waiting(t) {
                    en.push(t);
                    unfair += 1;
                }
            }
        }
        if en.is_empty() {
            if !self.threads.iter().all(|s| *s == St::Finished) {
                self.deadlock = true;
                self.drain = true;
            }
            self.current = usize::MAX;
            return;
        }
        if self.trace.len() >= self.horizon_steps || crate::common::vclock::global_mono() > self.horizon_ns {
            self.horizon_hit = true;
            self.drain = true;
            self.current = usize::MAX;
            return;
        }
        let i = self.trace.len();
        let c = if i < self.prefix.len() { self.prefix[i] } else { 0 };
        if c >= en.len() {
            // replay divergence: recorded as a machinery problem by the driver
            self.events.push(format!("DIVERGENCE at step {i}: choice {c} of {}", en.len()));
            self.deadlock = true;
            self.drain = true;
            self.current = usize::MAX;
            return;
        }
        let prev_enabled = en[0] == me && self.strongly_enabled(me);
        if c >= en.len() - unfair {
            self.unfair_used += 1;
        }
        if self.log_events {
            self.events.push(format!("  step {i}: enabled {:?} (last {unfair} unfair) -> {}", en, en[c]));
        }
        self.trace.push(Step { enabled: en.clone(), unfair, chosen: c, prev: me, prev_enabled });
        self.current = en[c];
    }
}

fn me() -> usize {
    TID.with(|t| t.get())
}

/// Identifier of the calling daemon thread (0 main, 1 poller, 2 writer; usize::MAX: not a daemon thread).
pub fn current_tid() -> usize {
    me()
}

/// Yield at a scheduling point; Err(()) if the execution is being torn down.
fn point(op: Op) -> Result<(), ()> {
    let me = me();
    let mut s = S.m.lock().unwrap();
    if s.drain {
        return Err(());
    }
    if s.log_events {
        let e = format!("t{me}: {op:?}");
        s.events.push(e);
    }
    s.threads[me] = St::Waiting(op);
    s.pick(me);
    S.cv.notify_all();
    while s.current != me && !s.drain {
        s = S.cv.wait(s).unwrap();
    }
    s.threads[me] = St::Running;
    if s.drain {
        return Err(());
    }
    Ok(())
}

fn drained<T>(fail: T) -> T {
    if std::thread::panicking() {
        fail
    } else {
        std::panic::resume_unwind(Box::new(DrainSentinel))
    }
}

/// A fault opportunity of the calling thread. Panics (injected) or returns the action.
fn opportunity(label: &str, explicit: bool) -> FaultAction {
    let me = me();
    let mut s = S.m.lock().unwrap();
    if s.drain || me >= s.opp_count.len() {
        return FaultAction::None;
    }
    let k = s.opp_count[me];
    s.opp_count[me] += 1;
    if s.opp_labels[me].len() < 256 {
        s.opp_labels[me].push(format!("{label}{}", if explicit { " [panic|return]" } else { " [panic]" }));
    }
    if let Some(f) = s.fault {
        if f.thread == me && f.at == k && s.fault_fired_at_ns.is_none() {
            if f.kind == FaultKind::Return && !explicit {
                s.fault_inapplicable = true;
                return FaultAction::None;
            }
            if std::thread::panicking() {
                // the thread is already unwinding: a second panic would abort the process
                s.fault_inapplicable = true;
                return FaultAction::None;
            }
            s.fault_fired_at_ns = Some(crate::common::vclock::global_mono());
            s.fault_label = Some(format!("thread {me} at opportunity {k} ({label}): {:?}", f.kind));
            drop(s);
            match f.kind {
                FaultKind::Panic => std::panic::resume_unwind(Box::new(InjectedPanic)),
                FaultKind::Return => return FaultAction::Return,
            }
        }
    }
    FaultAction::None
}

// ---- hook functions -------------------------------------------------------------------------

/// Channel identifiers carry the number of the execution that created them: an operation on a channel
/// of an earlier execution (a straggler thread still dropping its channel ends) must never touch the
/// bookkeeping of the current one.
const EPOCH_SHIFT: u32 = 16;
static EPOCH: std::sync::atomic::AtomicUsize = std::sync::atomic::AtomicUsize::new(1);

fn chan_index(s: &State, id: usize) -> Option<usize> {
    let idx = id & ((1 << EPOCH_SHIFT) - 1);
    if id >> EPOCH_SHIFT == s.epoch && idx < s.chans.len() {
        Some(idx)
    } else {
        None
    }
}

pub fn h_chan_new() -> usize {
    let mut s = S.m.lock().unwrap();
    s.chans.push(Chan { len: 0, senders: 1 });
    (s.epoch << EPOCH_SHIFT) | (s.chans.len() - 1)
}
pub fn h_sender_clone(id: usize) {
    let mut s = S.m.lock().unwrap();
    if let Some(i) = chan_index(&s, id) {
        s.chans[i].senders += 1;
    }
}
pub fn h_sender_drop(id: usize) {
    let mut s = S.m.lock().unwrap();
    if let Some(i) = chan_index(&s, id) {
        if s.chans[i].senders > 0 {
            s.chans[i].senders -= 1;
        }
    }
}
pub fn h_receiver_drop(_id: usize) {}

fn live_chan(id: usize) -> Option<usize> {
    let s = S.m.lock().unwrap();
    chan_index(&s, id)
}

pub fn h_send(id: usize) -> Ctl {
    let id = match live_chan(id) {
        Some(i) => i,
        None => return drained(Ctl::Fail),
    };
    if point(Op::Send(id)).is_err() {
        return drained(Ctl::Fail);
    }
    opportunity("before send", false);
    Ctl::Proceed
}
pub fn h_sent(id: usize, ok: bool) {
    {
        let mut s = S.m.lock().unwrap();
        if let Some(i) = chan_index(&s, id) {
            if ok {
                s.chans[i].len += 1;
            }
        }
    }
    opportunity("after send", false);
}
pub fn h_recv(id: usize, timeout: Option<Duration>) -> RecvCtl {
    let id = match live_chan(id) {
        Some(i) => i,
        None => return drained(RecvCtl::Disconnected),
    };
    let op = match timeout {
        None => Op::Recv(id),
        Some(d) => Op::RecvTimeout(id, d.as_nanos() as u64),
    };
    if point(op).is_err() {
        return drained(RecvCtl::Disconnected);
    }
    opportunity("before receive", false);
    let r = {
        let mut s = S.m.lock().unwrap();
        if s.chans[id].len > 0 {
            s.chans[id].len -= 1;
            RecvCtl::Take
        } else if s.chans[id].senders == 0 {
            RecvCtl::Disconnected
        } else {
            match timeout {
                Some(d) => {
                    s.timeouts_fired += 1;
                    crate::common::vclock::global_advance(d.as_nanos() as i64);
                    RecvCtl::Timeout
                }
                None => RecvCtl::Disconnected,
            }
        }
    };
    if r == RecvCtl::Take {
        opportunity("after receive", false);
    }
    r
}
pub fn h_spawn() -> usize {
    let mut s = S.m.lock().unwrap();
    s.threads.push(St::Waiting(Op::Start));
    s.panicked.push(false);
    s.opp_count.push(0);
    s.opp_labels.push(vec![]);
    s.threads.len() - 1
}
pub fn h_thread_begin(id: usize) {
    TID.with(|t| t.set(id));
    let mut s = S.m.lock().unwrap();
    while s.current != id && !s.drain {
        s = S.cv.wait(s).unwrap();
    }
    // In drain mode the thread function is allowed to start: its first scheduling point unwinds it
    // from inside the stand-in's catch_unwind, so that everything it owns (its Context with the channel
    // ends) is dropped before thread_end marks it finished. (Unwinding from here would drop them after
    // the thread had been accounted for, racing with the next execution.)
    s.threads[id] = St::Running;
}
pub fn h_thread_end(id: usize, panicked: bool) {
    let mut s = S.m.lock().unwrap();
    s.threads[id] = St::Finished;
    s.panicked[id] = panicked;
    if s.log_events {
        s.events.push(format!("t{id}: exit{}", if panicked { " (panic)" } else { "" }));
    }
    if !s.drain {
        s.pick(id);
    }
    S.cv.notify_all();
}
pub fn h_join(id: usize) -> Ctl {
    if point(Op::Join(id)).is_err() {
        return drained(Ctl::Fail);
    }
    Ctl::Proceed
}
pub fn h_fault_point(name: &'static str) -> FaultAction {
    if point(Op::Fault(name)).is_err() {
        return drained(FaultAction::Return);
    }
    opportunity(name, true)
}
pub fn h_reverse_keys() -> bool {
    S.m.lock().unwrap().reverse_keys
}
/// scheduling point + fault opportunities of the request to chronyd
pub fn query_point() -> Result<(), ()> {
    point(Op::Query)?;
    opportunity("before chrony query", false);
    Ok(())
}
pub fn after_query() {
    opportunity("after chrony query", false);
}
pub fn drained_query() -> std::io::Error {
    drained(std::io::Error::new(std::io::ErrorKind::Other, "verif: torn down"))
}

// ---- driver API -----------------------------------------------------------------------------

pub struct Setup {
    pub prefix: Vec<usize>,
    pub fault: Option<Fault>,
    pub unfair_budget: usize,
    pub reverse_keys: bool,
    pub horizon_steps: usize,
    pub horizon_ns: i64,
    pub log_events: bool,
}

pub fn reset(setup: Setup) {
    let mut s = S.m.lock().unwrap();
    *s = State::new();
    s.epoch = EPOCH.fetch_add(1, std::sync::atomic::Ordering::SeqCst) & 0xffff_ffff;
    s.prefix = setup.prefix;
    s.fault = setup.fault;
    s.unfair_budget = setup.unfair_budget;
    s.reverse_keys = setup.reverse_keys;
    s.horizon_steps = setup.horizon_steps;
    s.horizon_ns = setup.horizon_ns;
    s.log_events = setup.log_events;
    s.threads.push(St::Running); // thread 0 = the caller, which becomes the daemon's main thread
    s.panicked.push(false);
    s.opp_count.push(0);
    s.opp_labels.push(vec![]);
    s.current = 0;
    TID.with(|t| t.set(0));
}

/// Called by thread 0 after `run()` returned or was unwound.
pub fn finish_main() {
    let mut s = S.m.lock().unwrap();
    s.threads[0] = St::Finished;
    if !s.drain {
        s.pick(0);
    }
    if !s.threads.iter().all(|t| *t == St::Finished) {
        s.drain = true;
    }
    S.cv.notify_all();
}

pub fn all_finished() -> bool {
    let s = S.m.lock().unwrap();
    s.threads.iter().all(|t| *t == St::Finished)
}

pub struct Report {
    pub trace: Vec<Step>,
    pub deadlock: bool,
    pub horizon_hit: bool,
    pub fault_fired_at_ns: Option<i64>,
    pub fault_label: Option<String>,
    pub fault_inapplicable: bool,
    pub opp_labels: Vec<Vec<String>>,
    pub panicked: Vec<bool>,
    pub unfinished_at_return: Vec<usize>,
    pub timeouts_fired: usize,
    pub events: Vec<String>,
    pub waiting: Vec<String>,
}

/// Snapshot taken by thread 0 right after `run()` returned (before tear-down).
pub fn report_at_return() -> Report {
    let s = S.m.lock().unwrap();
    Report {
        trace: s.trace.clone(),
        deadlock: s.deadlock,
        horizon_hit: s.horizon_hit,
        fault_fired_at_ns: s.fault_fired_at_ns,
        fault_label: s.fault_label.clone(),
        fault_inapplicable: s.fault_inapplicable,
        opp_labels: s.opp_labels.clone(),
        panicked: s.panicked.clone(),
        unfinished_at_return: (1..s.threads.len()).filter(|t| s.threads[*t] != St::Finished).collect(),
        timeouts_fired: s.timeouts_fired,
        events: s.events.clone(),
        waiting: s.threads.iter().map(|t| format!("{t:?}")).collect(),
    }
}
