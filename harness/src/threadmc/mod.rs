//! E3 (C15): every interleaving (iteratively preemption-bounded) of the three real daemon threads x
//! every fault placement, under a baton scheduler. DESIGN.md section 5.

pub mod sched;

use crate::common::par;
use crate::common::report::{cov, finish, machinery_failure, Ctx, Outcome, Tier, Violation};
use crate::common::vclock;
use crate::histmc::pipeline::{encode_float, parse_reply, tracking_wire, TrackSpec};
use chrony_candm::reply::Reply;
use chrony_candm::request::RequestBody;
use chrony_candm::ClientOptions;
use sched::{Fault, FaultKind, Setup, Step};
use serde_json::{json, Value};
use std::collections::BTreeMap;
use std::path::{Path, PathBuf};
use std::sync::atomic::{AtomicI64, AtomicU8, Ordering};
use std::sync::Mutex;

const R0: i64 = 1_700_000_000_000_000_000;
const M0: i64 = 5_000_000_000_000;
const SEC: i64 = 1_000_000_000;

static CHRONY_MODE: AtomicU8 = AtomicU8::new(0); // 0 answers at once, 1 absent (the request fails at once), 2 wedged (socket present, never replies), 3 slow (answers the first retransmission: 1.3 x the client's timeout), 4 forbidden (the socket directory is not accessible: EACCES at once)
static LAST_QUERY_NS: AtomicI64 = AtomicI64::new(0);
static SHM_PATH: Mutex<Option<PathBuf>> = Mutex::new(None);

/// Environment model of the datagram exchange with chronyd. A wedged chronyd makes the request last
/// as long as the client's own options say: it re-sends after every `timeout` and gives up when its
/// attempt counter (a u16 that is incremented before it is compared) equals `n_tries`.
fn chrony_hook(_r: RequestBody, o: ClientOptions) -> std::io::Result<Reply> {
    if sched::query_point().is_err() {
        return Err(sched::drained_query());
    }
    let mode = CHRONY_MODE.load(Ordering::SeqCst);
    let lat: i64 = if mode == 2 {
        let tries: i64 = if o.n_tries == 0 { 65_536 } else { o.n_tries as i64 };
        tries.saturating_mul(o.timeout.as_nanos().min(i64::MAX as u128 / 70_000) as i64)
    } else if mode == 3 {
        (o.timeout.as_nanos().min(i64::MAX as u128 / 4) as i64).saturating_mul(13) / 10
    } else {
        0
    };
    LAST_QUERY_NS.fetch_max(lat, Ordering::SeqCst);
    vclock::global_advance(lat);
    let res = if mode == 4 {
        Err(std::io::Error::from_raw_os_error(libc::EACCES))
    } else if mode == 1 {
        Err(std::io::Error::from_raw_os_error(libc::ENOENT))
    } else if mode == 2 {
        Err(std::io::Error::new(std::io::ErrorKind::TimedOut, "verif: chronyd does not answer"))
    } else {
        let spec = TrackSpec { ref_id: 0, leap: 0, ref_time_ns: R0 as i128, offset_bits: encode_float(0.001), delay_bits: encode_float(0.01), disp_bits: encode_float(0.01), interval_bits: encode_float(16.0) };
        parse_reply(&tracking_wire(&spec, 1)).map_err(|e| std::io::Error::new(std::io::ErrorKind::InvalidData, e))
    };
    sched::after_query();
    res
}

static D_HOOKS: clock_bound_d::verif::Hooks = clock_bound_d::verif::Hooks {
    sched: Some(clock_bound_d::verif::SchedHooks {
        chan_new: sched::h_chan_new,
        sender_clone: sched::h_sender_clone,
        sender_drop: sched::h_sender_drop,
        receiver_drop: sched::h_receiver_drop,
        send: sched::h_send,
        sent: sched::h_sent,
        recv: sched::h_recv,
        spawn: sched::h_spawn,
        thread_begin: sched::h_thread_begin,
        thread_end: sched::h_thread_end,
        join: sched::h_join,
        fault_point: sched::h_fault_point,
        reverse_keys: sched::h_reverse_keys,
    }),
    chrony_query: Some(chrony_hook),
};

/// which daemon threads stored to the segment during the current execution (the seqlock has ONE producer: the
/// segment explorer's verdicts for C02/C03 rest on that)
static SEG_WRITERS: Mutex<Vec<usize>> = Mutex::new(Vec::new());
fn note_segment_write() {
    let t = sched::current_tid();
    if let Ok(mut w) = SEG_WRITERS.lock() {
        if !w.contains(&t) {
            w.push(t);
        }
    }
}

// pass-through segment hooks: the path of the segment is redirected, and who writes to it is noted
fn s_load(_a: usize, _s: usize, _o: std::sync::atomic::Ordering, real: u64) -> u64 {
    real
}
fn s_store(_a: usize, _s: usize, _o: std::sync::atomic::Ordering, _v: u64) {
    note_segment_write();
}
fn s_rmw(_a: usize, _s: usize, _o: std::sync::atomic::Ordering, old: u64, _new: u64) -> u64 {
    note_segment_write();
    old
}
fn s_fence(_o: std::sync::atomic::Ordering) {}
fn s_data_write(dst: usize, src: *const u8, len: usize) {
    note_segment_write();
    // SAFETY: contract of the hook
    unsafe { std::ptr::copy_nonoverlapping(src, dst as *mut u8, len) }
}
fn s_data_read(src: usize, dst: *mut u8, len: usize) {
    // SAFETY: contract of the hook
    unsafe { std::ptr::copy_nonoverlapping(src as *const u8, dst, len) }
}
fn s_point(_n: &'static str) {}
fn s_map(_a: usize, _l: usize, _w: bool) {}
fn s_remap(_p: &Path) -> Option<PathBuf> {
    SHM_PATH.lock().unwrap().clone()
}
static S_HOOKS: clock_bound_shm::verif::Hooks = clock_bound_shm::verif::Hooks { load: s_load, store: s_store, rmw: s_rmw, fence: s_fence, data_write: s_data_write, data_read: s_data_read, point: s_point, map: s_map, remap_path: s_remap };

#[derive(Clone, Debug)]
struct Scenario {
    fault: Option<Fault>,
    startup_failure: bool,
    /// 0: chronyd answers at once; 1: absent (requests fail at once); 2: wedged (never replies)
    chrony_mode: u8,
    reverse_keys: bool,
    unfair_budget: usize,
}

impl Scenario {
    fn json(&self) -> Value {
        json!({"fault": self.fault.map(|f| json!({"thread": (["main", "poller", "writer"][f.thread.min(2)]), "opportunity": f.at, "kind": format!("{:?}", f.kind)})), "segment_uncreatable": self.startup_failure,
               "chronyd": (["answers", "absent", "wedged", "slow", "forbidden"][self.chrony_mode.min(4) as usize]), "abort_broadcast_reversed": self.reverse_keys, "unfair_timeouts_allowed": self.unfair_budget})
    }
    fn from_json(v: &Value) -> Scenario {
        let fault = if v["fault"].is_null() {
            None
        } else {
            Some(Fault { thread: if v["fault"]["thread"] == "poller" { 1 } else { 2 }, at: v["fault"]["opportunity"].as_u64().unwrap() as usize, kind: if v["fault"]["kind"] == "Panic" { FaultKind::Panic } else { FaultKind::Return } })
        };
        Scenario { fault, startup_failure: v["segment_uncreatable"].as_bool().unwrap_or(false), chrony_mode: match v["chronyd"].as_str() { Some("absent") => 1, Some("wedged") => 2, Some("slow") => 3, Some("forbidden") => 4, _ => 0 }, reverse_keys: v["abort_broadcast_reversed"].as_bool().unwrap_or(false), unfair_budget: v["unfair_timeouts_allowed"].as_u64().unwrap_or(0) as usize }
    }
}

struct Exec {
    trace: Vec<Step>,
    returned: bool,
    main_unwound_by: Option<String>,
    latency_ns: Option<i64>,
    rep: sched::Report,
    /// daemon threads that stored to the segment
    segment_writers: Vec<usize>,
}

fn run_once(sc: &Scenario, prefix: Vec<usize>, dir: &Path, horizon_iters: i64, log: bool) -> Exec {
    // a wedged chronyd holds every request for 3 s with the library's default options
    let per_iter = match sc.chrony_mode { 2 => 4 * SEC, 3 => 3 * SEC, _ => SEC };
    run_once_h(sc, prefix, dir, M0 + (horizon_iters + 12) * per_iter, log)
}

fn run_once_h(sc: &Scenario, prefix: Vec<usize>, dir: &Path, horizon_ns: i64, log: bool) -> Exec {
    let seg = if sc.startup_failure {
        let f = dir.join("notadir");
        let _ = std::fs::write(&f, b"x");
        f.join("sub").join("shm")
    } else {
        let p = dir.join("shm");
        let _ = std::fs::remove_file(&p);
        p
    };
    *SHM_PATH.lock().unwrap() = Some(seg);
    CHRONY_MODE.store(sc.chrony_mode, Ordering::SeqCst);
    LAST_QUERY_NS.store(0, Ordering::SeqCst);
    SEG_WRITERS.lock().unwrap().clear();
    vclock::global_arm(R0, M0);
    sched::reset(Setup { prefix, fault: sc.fault, unfair_budget: sc.unfair_budget, reverse_keys: sc.reverse_keys, horizon_steps: 600, horizon_ns, log_events: log });
    let r = std::panic::catch_unwind(|| clock_bound_d::thread_manager::run(1000, None));
    let t_return = vclock::global_mono();
    let rep = sched::report_at_return();
    sched::finish_main();
    let t0 = vclock::raw_now_s();
    while !sched::all_finished() {
        crate::common::vclock::real_sleep(std::time::Duration::from_micros(20));
        if vclock::raw_now_s() - t0 > 10.0 {
            machinery_failure(&format!("tear-down of an execution did not complete (scenario {}, thread states {:?})", sc.json(), rep.waiting));
        }
    }
    vclock::global_disarm();
    // ShmWriter::new leaves one descriptor open per writer (see DESIGN.md 2.6): close them now and then
    thread_local! { static SINCE: std::cell::Cell<u32> = const { std::cell::Cell::new(0) }; }
    if SINCE.with(|c| { c.set(c.get() + 1); c.get() }) >= 400 {
        SINCE.with(|c| c.set(0));
        if let Some(p) = SHM_PATH.lock().unwrap().clone() {
            crate::seqmc::engine::close_leaked_fds(&p);
        }
        crate::seqmc::engine::close_leaked_fds(&dir.join("shm"));
    }
    let main_unwound_by = match &r {
        Ok(()) => None,
        Err(p) => Some(if p.downcast_ref::<sched::DrainSentinel>().is_some() { "tear-down".to_string() } else { p.downcast_ref::<&str>().map(|s| s.to_string()).or_else(|| p.downcast_ref::<String>().cloned()).unwrap_or_else(|| "panic".into()) }),
    };
    let fired = if sc.startup_failure { Some(M0) } else { rep.fault_fired_at_ns };
    let segment_writers = SEG_WRITERS.lock().unwrap().clone();
    Exec { trace: rep.trace.clone(), returned: r.is_ok(), main_unwound_by, latency_ns: fired.map(|f| t_return - f), rep, segment_writers }
}

fn preemptions(trace: &[Step], upto: usize) -> usize {
    trace[..upto].iter().filter(|s| s.prev_enabled && s.chosen != 0 && s.chosen < s.enabled.len() - s.unfair).count()
}

#[derive(Default)]
struct Tally {
    schedules: u64,
    steps: u64,
    judged: u64,
    vacuous: u64,
    max_latency_ns: i64,
    outcomes: BTreeMap<String, u64>,
    counts: BTreeMap<String, u64>,
    kept: Vec<Violation>,
    per_bound: BTreeMap<String, u64>,
    capped: bool,
    h: i64,
}

impl Tally {
    fn to_json(&self) -> Value {
        json!({"schedules": self.schedules, "steps": self.steps, "judged": self.judged, "vacuous": self.vacuous, "max_latency_ns": self.max_latency_ns, "outcomes": self.outcomes, "counts": self.counts,
               "kept": self.kept.iter().map(|v| json!({"sig": v.signature, "text": v.text, "replay": v.replay})).collect::<Vec<_>>(), "per_bound": self.per_bound, "capped": self.capped})
    }
    fn absorb(&mut self, v: &Value) {
        let u = |k: &str| v[k].as_u64().unwrap_or(0);
        self.schedules += u("schedules");
        self.steps += u("steps");
        self.judged += u("judged");
        self.vacuous += u("vacuous");
        self.max_latency_ns = self.max_latency_ns.max(v["max_latency_ns"].as_i64().unwrap_or(0));
        self.capped |= v["capped"].as_bool().unwrap_or(false);
        for key in ["outcomes", "counts", "per_bound"] {
            if let Some(o) = v[key].as_object() {
                let m = match key {
                    "outcomes" => &mut self.outcomes,
                    "counts" => &mut self.counts,
                    _ => &mut self.per_bound,
                };
                for (k, x) in o {
                    *m.entry(k.clone()).or_insert(0) += x.as_u64().unwrap_or(0);
                }
            }
        }
        for k in v["kept"].as_array().cloned().unwrap_or_default() {
            let sig = k["sig"].as_str().unwrap_or("").to_string();
            if !self.kept.iter().any(|x| x.signature == sig) {
                self.kept.push(Violation { signature: sig, text: k["text"].as_str().unwrap_or("").to_string(), replay: k["replay"].clone() });
            }
        }
    }
    fn add(&mut self, sig: &str, text: String, replay: Value) {
        *self.counts.entry(sig.to_string()).or_insert(0) += 1;
        if !self.kept.iter().any(|x| x.signature == sig) {
            self.kept.push(Violation { signature: sig.to_string(), text, replay });
        }
    }
}

fn judge(sc: &Scenario, e: &Exec, tally: &mut Tally) {
    tally.schedules += 1;
    tally.steps += e.trace.len() as u64;
    let choices: Vec<usize> = e.trace.iter().map(|s| s.chosen).collect();
    let hh = tally.h;
    let doc = || json!({"check": "C15", "scenario": sc.json(), "iterations": hh, "schedule": choices, "fault": e.rep.fault_label, "thread_states_at_end": e.rep.waiting});
    if e.rep.events.iter().any(|x| x.starts_with("DIVERGENCE")) {
        machinery_failure(&format!("replay divergence in the thread explorer: {:?} scenario {} schedule {:?}", e.rep.events.iter().find(|x| x.starts_with("DIVERGENCE")), sc.json(), choices));
    }
    let fired = sc.startup_failure || e.rep.fault_fired_at_ns.is_some();
    if !fired {
        tally.vacuous += 1;
        *tally.outcomes.entry(if e.rep.fault_inapplicable { "fault not applicable at that point".into() } else { "fault point not reached before the horizon".to_string() }).or_insert(0) += 1;
        return;
    }
    tally.judged += 1;
    if e.rep.deadlock {
        tally.add("C15:lingers-deadlock", format!("after {} the daemon neither exits nor makes progress: thread states {:?}", e.rep.fault_label.clone().unwrap_or_else(|| "the segment could not be created".into()), e.rep.waiting), doc());
        return;
    }
    // "within a few seconds": the poll period, one request in progress (at most the 3 x 1 s the
    // library's default options allow against a chronyd that never replies) and the join
    let limit = (4 + sc.unfair_budget as i64) * SEC + match sc.chrony_mode { 2 => 2 * 3 * SEC, 3 => 2 * 2 * SEC, _ => 0 };
    if (e.rep.horizon_hit || !e.returned) && e.latency_ns.unwrap_or(i64::MAX) <= limit {
        // the execution was cut before the time allowed for the exit had passed: nothing to judge
        tally.judged -= 1;
        tally.vacuous += 1;
        *tally.outcomes.entry("horizon reached before the exit deadline".to_string()).or_insert(0) += 1;
        return;
    }
    if e.rep.horizon_hit || !e.returned {
        tally.add("C15:does-not-exit", format!("after {} the daemon was still running {:.0} virtual seconds later ({} timeouts fired; main ended by {:?}; thread states {:?})", e.rep.fault_label.clone().unwrap_or_else(|| "the segment could not be created".into()), e.latency_ns.unwrap_or(0) as f64 / 1e9, e.rep.timeouts_fired, e.main_unwound_by, e.rep.waiting), doc());
        return;
    }
    if !e.rep.unfinished_at_return.is_empty() {
        tally.add("C15:thread-outlives-run", format!("run() returned while threads {:?} were still alive", e.rep.unfinished_at_return), doc());
    }
    let lat = e.latency_ns.unwrap_or(0);
    tally.max_latency_ns = tally.max_latency_ns.max(lat);
    if lat > limit {
        tally.add("C15:slow-exit", format!("the daemon took {:.1} virtual seconds to exit after {}", lat as f64 / 1e9, e.rep.fault_label.clone().unwrap_or_default()), doc());
    }
    let who = format!("poller {} / writer {}", if e.rep.panicked.get(1) == Some(&true) { "panicked" } else { "returned" }, if e.rep.panicked.get(2) == Some(&true) { "panicked" } else { "returned" });
    *tally.outcomes.entry(who).or_insert(0) += 1;
}

fn explore(sc: &Scenario, prefix: Vec<usize>, bound: usize, dir: &Path, h: i64, tally: &mut Tally, deadline: f64) {
    if vclock::raw_now_s() > deadline {
        tally.capped = true;
        return;
    }
    // the verdict is settled once violating executions have been seen; a tree on which most schedules deadlock would
    // otherwise cost minutes (each such execution runs to its horizon). On a tree where the property holds this
    // never triggers.
    if tally.counts.values().sum::<u64>() >= 8 {
        tally.capped = true;
        return;
    }
    let e = run_once(sc, prefix.clone(), dir, h, false);
    if e.rep.events.iter().any(|x| x.starts_with("DIVERGENCE")) {
        // diagnostics: the same prefix and its parent, re-run with the event log on
        let mut dump = format!("scenario {}\nprefix {:?}\n--- diverging run (re-run with log)\n", sc.json(), prefix);
        let again = run_once(sc, prefix.clone(), dir, h, true);
        dump += &again.rep.events.join("\n");
        dump += "\n--- parent prefix\n";
        let parent = run_once(sc, prefix[..prefix.len().saturating_sub(1)].to_vec(), dir, h, true);
        dump += &parent.rep.events.join("\n");
        let _ = std::fs::write(format!("/tmp/c15-divergence-{}.txt", std::process::id()), &dump);
    }
    judge(sc, &e, tally);
    for i in prefix.len()..e.trace.len() {
        let s = &e.trace[i];
        let base = preemptions(&e.trace, i);
        for alt in 1..s.enabled.len() {
            let is_unfair = alt >= s.enabled.len() - s.unfair;
            let cost = base + if s.prev_enabled && !is_unfair { 1 } else { 0 };
            if cost > bound {
                continue;
            }
            let mut p: Vec<usize> = e.trace[..i].iter().map(|s| s.chosen).collect();
            p.push(alt);
            explore(sc, p, bound, dir, h, tally, deadline);
        }
    }
}

fn install() {
    clock_bound_d::verif::install(&D_HOOKS);
    clock_bound_shm::verif::install(&S_HOOKS);
}

/// For C02: the real daemon (both worker threads, under the controlled scheduler, default schedule) with a fault
/// at every opportunity of either worker, with each chronyd behaviour: every store to the segment must come from
/// one and the same thread. Returns (evidence, violations); leaves this engine's hooks installed.
pub fn single_producer_scan(ctx: &Ctx) -> (Value, Vec<Violation>) {
    install();
    let base = ctx.scratch().join("single-producer");
    let _ = std::fs::create_dir_all(&base);
    let mut executions = 0u64;
    let mut writers_seen: BTreeMap<String, u64> = BTreeMap::new();
    let mut violations: Vec<Violation> = vec![];
    for mode in [0u8, 1, 4] {
        let probe_sc = Scenario { fault: None, startup_failure: false, chrony_mode: mode, reverse_keys: false, unfair_budget: 0 };
        let probe = run_once_h(&probe_sc, vec![], &base, M0 + 2 * SEC + SEC / 2, false);
        let mut scs = vec![probe_sc.clone()];
        for t in [1usize, 2] {
            let labels = probe.rep.opp_labels.get(t).cloned().unwrap_or_default();
            for (k, l) in labels.iter().enumerate() {
                for kind in [FaultKind::Panic, FaultKind::Return] {
                    if kind == FaultKind::Return && !l.contains("return") {
                        continue;
                    }
                    scs.push(Scenario { fault: Some(Fault { thread: t, at: k, kind }), startup_failure: false, chrony_mode: mode, reverse_keys: false, unfair_budget: 0 });
                }
            }
        }
        for sc in scs {
            let e = run_once(&sc, vec![], &base, 2, false);
            executions += 1;
            let names: Vec<&str> = e.segment_writers.iter().map(|t| ["main", "poller", "writer"].get(*t).copied().unwrap_or("another thread")).collect();
            *writers_seen.entry(format!("{names:?}")).or_insert(0) += 1;
            if e.segment_writers.len() > 1 && violations.is_empty() {
                violations.push(Violation {
                    signature: "C02:segment-written-by-more-than-one-thread".into(),
                    text: format!("the daemon's threads {names:?} all stored to the segment in one execution ({}): two producers can interleave inside an update, and a reader that sees the same even generation before and after its copy accepts a blend", e.rep.fault_label.clone().unwrap_or_else(|| "no fault".into())),
                    replay: json!({"engine": "threadmc", "scenario": sc.json(), "schedule": [], "iterations": 2, "calls": []}),
                });
            }
        }
    }
    crate::seqmc::engine::close_leaked_fds(&base.join("shm"));
    (json!({"executions_of_the_real_daemon": executions, "threads_that_stored_to_the_segment": writers_seen}), violations)
}

/// The one worker death that can be provoked from outside, through the release binary: the segment cannot be
/// created (its directory's name is taken by a regular file), so the writer thread dies at start-up - with no
/// chronyd, with one that answers at once and with one that answers 1.3 s late. The process must be gone
/// within a few seconds.
fn end_to_end(ctx: &Ctx, total: &mut Tally) -> Value {
    use crate::procmc::e2e::{self, Scenario, ID_OTHER};
    let bin = e2e::binary(ctx);
    if !std::path::Path::new(&bin).exists() {
        return json!({"skipped": format!("release binary {bin} not built")});
    }
    let scenarios = vec![
        Scenario { name: "segment uncreatable, no chronyd", block_directory: true, observe_ms: 9000, ..Scenario::blank() },
        Scenario { name: "segment uncreatable, chronyd answers at once", block_directory: true, chronyd: Some((ID_OTHER, 0)), observe_ms: 9000, ..Scenario::blank() },
        Scenario { name: "segment uncreatable, chronyd answers 1.3 s late", block_directory: true, chronyd: Some((ID_OTHER, 0)), chronyd_delay_ms: 1300, observe_ms: 12000, ..Scenario::blank() },
    ];
    let results: Vec<Result<Value, String>> = std::thread::scope(|s| {
        let hs: Vec<_> = scenarios.iter().map(|sc| { let bin = bin.clone(); s.spawn(move || e2e::run_scenario(&bin, sc)) }).collect();
        hs.into_iter().map(|h| h.join().unwrap_or_else(|_| Err("scenario thread panicked".into()))).collect()
    });
    let mut report = vec![];
    for (sc, r) in scenarios.iter().zip(results) {
        let v = match r {
            Ok(v) => v,
            Err(e) => machinery_failure(&format!("C15 end-to-end scenario '{}': {e}", sc.name)),
        };
        if let Some(u) = v["unavailable"].as_str() {
            return json!({"skipped": format!("the sandbox does not allow it: {u}")});
        }
        if e2e::too_slow(&v) {
            report.push(json!({"scenario": sc.name, "verdict": e2e::slow_note(&v)}));
            continue;
        }
        let doc = json!({"check": "C15", "phase": "end to end through the release binary", "scenario": sc.name, "observed": v});
        let limit_ms = if sc.chronyd_delay_ms > 0 { 9000 } else { 6000 };
        match v["daemon_exited_after_ms"].as_u64() {
            Some(t) if t <= limit_ms => {}
            Some(t) => total.add("C15:e2e:exits-late", format!("{}: the daemon process exited only after {t} ms", sc.name), doc.clone()),
            None => total.add("C15:e2e:does-not-exit", format!("{}: the writer thread cannot start, yet the daemon process is still there after {} ms", sc.name, sc.observe_ms), doc.clone()),
        }
        report.push(json!({"scenario": sc.name, "daemon_exited_after_ms": v["daemon_exited_after_ms"], "exit_status": v["daemon_exit_status"], "machine": v["machine"]}));
    }
    // a worker that dies in a daemon that has been healthy: of a lasting cause (the polling thread's `expect` on a
    // PHC error bound that is not a number) and of a passing one (a single undecodable reply), right after
    // start-up and when the daemon's clocks say it has been up for an hour and a half (nothing in the statement
    // limits how long the daemon has been running when a worker dies, nor says the cause must last)
    let shim = match e2e::shim(ctx) {
        Ok(s) => s,
        Err(e) => machinery_failure(&format!("C15: {e}")),
    };
    let uptimes = [(0u64, false), (0, true), (5400, true)];
    let results: Vec<Result<Value, String>> = std::thread::scope(|s| {
        let hs: Vec<_> = uptimes.iter().map(|(u, one_shot)| { let (bin, shim) = (bin.clone(), shim.clone()); s.spawn(move || e2e::run_worker_death(&bin, &shim, *u, false, *one_shot)) }).collect();
        hs.into_iter().map(|h| h.join().unwrap_or_else(|_| Err("scenario thread panicked".into()))).collect()
    });
    for ((u, one_shot), r) in uptimes.iter().zip(results) {
        let name = format!("polling thread dies ({}) in a healthy daemon whose clocks say it has been up for {u} s more than it has", if *one_shot { "one undecodable reply from chronyd, the next ones are in order" } else { "PHC error bound turns into 'not-a-number' and stays so" });
        let v = match r {
            Ok(v) => v,
            Err(e) => machinery_failure(&format!("C15 end-to-end scenario '{name}': {e}")),
        };
        if let Some(u) = v["unavailable"].as_str() {
            return json!({"skipped": format!("the sandbox does not allow it: {u}")});
        }
        if e2e::too_slow(&v) {
            report.push(json!({"scenario": name, "verdict": e2e::slow_note(&v)}));
            continue;
        }
        if v["first_lifetime_never_synchronized"] == true {
            machinery_failure(&format!("C15 end-to-end scenario '{name}': the daemon never published a Synchronized record against the stand-in chronyd"));
        }
        let doc = json!({"check": "C15", "phase": "end to end through the release binary", "scenario": name, "observed": v});
        // the poll period (1 s) until the attribute is read again, then tear-down
        match v["daemon_exited_ms_after_the_attribute_broke"].as_u64() {
            Some(t) if t <= 7000 => {}
            Some(t) => total.add("C15:e2e:exits-late", format!("{name}: the daemon process exited only {t} ms after the event"), doc.clone()),
            None => total.add("C15:e2e:lingers-after-worker-death", format!("{name}: 15 s later the daemon process is still there ({} tracking requests were sent after the event)", v["tracking_requests_after_the_attribute_broke"]), doc.clone()),
        }
        report.push(json!({"scenario": name, "daemon_exited_ms_after_the_event": v["daemon_exited_ms_after_the_attribute_broke"], "exit_status": v["daemon_exit_status"], "machine": v["machine"]}));
    }
    json!({"scenarios": report})
}

pub fn run(ctx: &Ctx) -> i32 {
    crate::common::report::quiet_panics();
    install();
    let base = ctx.scratch();
    if let Some(p) = &ctx.replay {
        let doc: Value = serde_json::from_str(&std::fs::read_to_string(p).expect("replay file")).expect("json");
        let sc = Scenario::from_json(&doc["case"]["scenario"]);
        let prefix: Vec<usize> = doc["case"]["schedule"].as_array().unwrap().iter().map(|x| x.as_u64().unwrap() as usize).collect();
        let hh = doc["case"]["iterations"].as_i64().unwrap_or(2);
        let a = run_once(&sc, prefix.clone(), &base, hh, true);
        let b = run_once(&sc, prefix, &base, hh, true);
        for ev in &a.rep.events {
            println!("{ev}");
        }
        println!("run() returned: {} ; deadlock: {} ; horizon: {} ; exit latency: {:?} ns ; fault: {:?}", a.returned, a.rep.deadlock, a.rep.horizon_hit, a.latency_ns, a.rep.fault_label);
        if a.rep.events != b.rep.events {
            println!("NON-DETERMINISTIC replay");
            return 2;
        }
        return 0;
    }
    let tier = ctx.tier;
    let h: i64 = ctx.opt_usize("iterations").map(|x| x as i64).unwrap_or(tier.pick(2, 3));
    let bound: usize = ctx.opt_usize("preemptions").unwrap_or(tier.pick(2, 4));
    let budget = ctx.opt_usize("budget_s").map(|b| b as f64).unwrap_or(tier.pick(600.0, 2400.0));
    let deadline = vclock::raw_now_s() + budget;
    // probe: fault-free default schedule, to enumerate each worker's fault opportunities
    let mut scenarios: Vec<Scenario> = vec![];
    let mut opp_catalogue = json!({});
    for mode in [0u8, 1, 2, 3, 4] {
        let probe_sc = Scenario { fault: None, startup_failure: false, chrony_mode: mode, reverse_keys: false, unfair_budget: 0 };
        // the probe runs the first h+1 poller iterations only: faults are placed inside that window
        let probe = run_once_h(&probe_sc, vec![], &base, M0 + h * (match mode { 2 => 4 * SEC, 3 => 3 * SEC, _ => SEC }) + SEC / 2, false);
        if !probe.rep.horizon_hit {
            machinery_failure("the fault-free daemon stopped by itself in the probe run");
        }
        for t in [1usize, 2] {
            let labels = probe.rep.opp_labels.get(t).cloned().unwrap_or_default();
            opp_catalogue[format!("{} (chronyd {})", if t == 1 { "poller" } else { "writer" }, ["answers", "absent", "wedged", "slow", "forbidden"][mode as usize])] = json!(labels);
            for (k, l) in labels.iter().enumerate() {
                for kind in [FaultKind::Panic, FaultKind::Return] {
                    if kind == FaultKind::Return && !l.contains("return") {
                        continue;
                    }
                    for reverse in [false, true] {
                        let unfair: Vec<usize> = tier.pick(vec![0, 1], vec![0, 1, 2]);
                        for u in unfair {
                            if (reverse || u > 0) && tier == Tier::Quick && k % 3 != 0 {
                                continue; // quick tier: the secondary dimensions on every third placement
                            }
                            if mode == 2 && tier == Tier::Quick && (reverse || u > 0) {
                                continue;
                            }
                            scenarios.push(Scenario { fault: Some(Fault { thread: t, at: k, kind }), startup_failure: false, chrony_mode: mode, reverse_keys: reverse, unfair_budget: u });
                        }
                    }
                }
            }
        }
        scenarios.push(Scenario { fault: None, startup_failure: true, chrony_mode: mode, reverse_keys: false, unfair_budget: 0 });
        scenarios.push(Scenario { fault: None, startup_failure: true, chrony_mode: mode, reverse_keys: true, unfair_budget: 1 });
    }
    // iterative preemption bounding: everything with 0, then 1, ... preemptions
    let mut total = Tally::default();
    let mut completed_bound: i64 = -1;
    for b in 0..=bound {
        let parts = par::fork_reduce(
            scenarios.len(),
            |c| (Tally { h, ..Tally::default() }, { let d = base.join(format!("p{c}")); let _ = std::fs::create_dir_all(&d); d }),
            |acc: &mut (Tally, PathBuf), i| {
                let before = acc.0.schedules;
                explore(&scenarios[i], vec![], b, &acc.1, h, &mut acc.0, deadline);
                *acc.0.per_bound.entry(format!("preemptions<={b}")).or_insert(0) += acc.0.schedules - before;
            },
            |acc| acc.0.to_json(),
        );
        let mut t = Tally::default();
        for p in &parts {
            t.absorb(p);
        }
        let capped = t.capped;
        // keep the counts of the deepest completed bound (a bound-b search contains the bound-(b-1) search)
        if !capped || b == 0 {
            let kept_before = std::mem::take(&mut total.kept);
            let pb = std::mem::take(&mut total.per_bound);
            total = t;
            for v in kept_before {
                if !total.kept.iter().any(|x| x.signature == v.signature) {
                    total.kept.insert(0, v);
                }
            }
            for (k, v) in pb {
                total.per_bound.entry(k).or_insert(v);
            }
            if !capped {
                completed_bound = b as i64;
            }
        } else {
            for v in t.kept {
                if !total.kept.iter().any(|x| x.signature == v.signature) {
                    total.kept.push(v);
                }
            }
            total.capped = true;
            break;
        }
        if !total.kept.is_empty() {
            break; // the first counterexample has the fewest preemptions
        }
    }
    if total.judged == 0 {
        machinery_failure("no execution with a fired fault was explored");
    }
    let sample = run_once(&scenarios[0], vec![], &base, h, true);
    let e2e = end_to_end(ctx, &mut total);
    let coverage = cov(vec![
        ("states", json!(total.steps)),
        ("transitions", json!(total.steps)),
        ("traces_validated_against_impl", json!(total.schedules)),
        ("samples", json!([{"scenario": scenarios[0].json(), "events_of_the_default_schedule": sample.rep.events}])),
        ("evaluations", json!(total.schedules)),
        ("distinct_nontrivial", json!(total.judged)),
        ("rule", json!("one execution of the real thread_manager::run with its two real worker threads per (fault placement, schedule); schedules enumerated depth-first with iterative preemption bounding; non-trivial = executions in which the fault fired (judged)")),
        ("fault_scenarios", json!(scenarios.len())),
        ("fault_opportunities", opp_catalogue),
        ("preemption_bound_completed", json!(completed_bound)),
        ("preemption_bound_requested", json!(bound)),
        ("schedules_per_bound", json!(total.per_bound)),
        ("poller_iterations_before_fault", json!(h)),
        ("executions_with_fault_fired", json!(total.judged)),
        ("executions_without_fault", json!(total.vacuous)),
        ("scheduling_points_executed", json!(total.steps)),
        ("max_exit_latency_virtual_s", json!(total.max_latency_ns as f64 / 1e9)),
        ("terminal_outcomes", json!(total.outcomes)),
        ("violation_counts_by_class", json!(total.counts)),
        ("end_to_end_through_the_release_binary", e2e),
        ("capped", json!(total.capped)),
        ("exhaustive", json!(!total.capped)),
        ("states_note", json!("stateless search: 'states' counts scheduling points executed (no state hashing)")),
    ]);
    finish(
        ctx,
        Outcome {
            level: "model_checking",
            coverage,
            assumptions: vec![
                "scheduling points: spawn/start, send, recv, recv_timeout, join, thread exit, the named fault points and the chrony query; code between two points runs atomically (it touches no shared state other than through these operations and the segment)".into(),
                "maximal progress: a recv_timeout fires only when no other thread can run; firing it earlier is a bounded deviation (unfair timeouts)".into(),
                "a thread dies by panicking (unwinding) or by returning; faults are injected at every shim operation (before/after) and at the named points".into(),
            ],
            violations: total.kept,
        },
    )
}
