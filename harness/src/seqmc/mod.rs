pub mod engine;
pub mod litmus;
pub mod props;
pub mod ra;
