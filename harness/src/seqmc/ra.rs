//! View-based operational semantics of C11 release/acquire + relaxed accesses + fences
//! (the promise-free fragment of Kang et al., "A promising semantics for relaxed-memory
//! concurrency", POPL'17 — also the model loom implements). See DESIGN.md section 3.2.
//!
//! * every store appends a message (value, view) to its location's modification order;
//! * a thread has a current view `cur`, an acquire-pending view `acq` (views of messages read by
//!   relaxed loads, joined into `cur` by an acquire fence) and a release view `rel` (`cur` as of the
//!   last release fence, attached to relaxed stores);
//! * a load may read any message of the location whose timestamp is >= cur[loc].
//!
//! SeqCst is treated as AcqRel (sound here: one writer, readers never store).

pub const MAXLOC: usize = 10;
pub type View = [u32; MAXLOC];

#[derive(Clone, Copy, Debug, PartialEq, Eq)]
pub enum Ord {
    Relaxed,
    Acquire,
    Release,
    AcqRel,
    SeqCst,
}

impl Ord {
    pub fn from_std(o: std::sync::atomic::Ordering) -> Ord {
        use std::sync::atomic::Ordering as O;
        match o {
            O::Relaxed => Ord::Relaxed,
            O::Acquire => Ord::Acquire,
            O::Release => Ord::Release,
            O::AcqRel => Ord::AcqRel,
            _ => Ord::SeqCst,
        }
    }
    pub fn acquires(self) -> bool {
        matches!(self, Ord::Acquire | Ord::AcqRel | Ord::SeqCst)
    }
    pub fn releases(self) -> bool {
        matches!(self, Ord::Release | Ord::AcqRel | Ord::SeqCst)
    }
}

pub fn join(a: &mut View, b: &View) -> bool {
    let mut changed = false;
    for i in 0..MAXLOC {
        if b[i] > a[i] {
            a[i] = b[i];
            changed = true;
        }
    }
    changed
}

#[derive(Clone, Debug)]
pub struct Msg {
    pub val: Vec<u8>,
    pub view: View,
    /// position in the writer trace at which the message came into existence (0 = initial)
    pub ev: u32,
}

#[derive(Clone, Debug, Default)]
pub struct Mem {
    pub msgs: Vec<Vec<Msg>>,
}

impl Mem {
    pub fn new(nloc: usize) -> Mem {
        assert!(nloc <= MAXLOC);
        Mem { msgs: vec![vec![]; nloc] }
    }
    pub fn latest(&self, loc: usize) -> Option<&Msg> {
        self.msgs[loc].last()
    }
    /// number of messages of `loc` that exist at trace position `end`
    pub fn count_at(&self, loc: usize, end: u32) -> usize {
        // messages are appended in trace order
        self.msgs[loc].partition_point(|m| m.ev <= end)
    }
    /// view in which every location is at its latest message as of trace position `end`
    pub fn full_view_at(&self, end: u32) -> View {
        let mut v = [0u32; MAXLOC];
        for loc in 0..self.msgs.len() {
            let n = self.count_at(loc, end);
            v[loc] = n.saturating_sub(1) as u32;
        }
        v
    }
}

#[derive(Clone, Copy, Debug, PartialEq, Eq, Hash, PartialOrd, Ord)]
pub struct TView {
    pub cur: View,
    pub acq: View,
    pub rel: View,
}

impl TView {
    pub fn new(start: View) -> TView {
        TView { cur: start, acq: start, rel: start }
    }

    /// Append a message for a store by this thread. Returns its timestamp.
    pub fn store(&mut self, mem: &mut Mem, loc: usize, val: Vec<u8>, ord: Ord, ev: u32) -> u32 {
        let ts = mem.msgs[loc].len() as u32;
        self.cur[loc] = ts;
        let mut view = if ord.releases() { self.cur } else { self.rel };
        view[loc] = ts;
        mem.msgs[loc].push(Msg { val, view, ev });
        ts
    }

    /// Read-modify-write: reads the latest message (atomicity) and continues its release sequence.
    pub fn rmw(&mut self, mem: &mut Mem, loc: usize, val: Vec<u8>, ord: Ord, ev: u32) -> u32 {
        let prev = mem.msgs[loc].last().cloned();
        if let Some(p) = &prev {
            let pts = (mem.msgs[loc].len() - 1) as u32;
            self.apply_load(loc, pts, &p.view, ord);
        }
        let ts = mem.msgs[loc].len() as u32;
        self.cur[loc] = ts;
        let mut view = if ord.releases() { self.cur } else { self.rel };
        if let Some(p) = &prev {
            join(&mut view, &p.view);
        }
        view[loc] = ts;
        mem.msgs[loc].push(Msg { val, view, ev });
        ts
    }

    /// Lowest timestamp this thread may still read at `loc`.
    pub fn floor(&self, loc: usize) -> u32 {
        self.cur[loc]
    }

    /// Account for having read message `ts` (with view `mview`) of `loc`. Returns true if the
    /// thread's views changed.
    pub fn apply_load(&mut self, loc: usize, ts: u32, mview: &View, ord: Ord) -> bool {
        let before = *self;
        if ts > self.cur[loc] {
            self.cur[loc] = ts;
        }
        if ts > self.acq[loc] {
            self.acq[loc] = ts;
        }
        if ord.acquires() {
            join(&mut self.cur, mview);
            join(&mut self.acq, mview);
        } else {
            join(&mut self.acq, mview);
        }
        before != *self
    }

    pub fn fence(&mut self, ord: Ord) -> bool {
        let before = *self;
        if ord.acquires() {
            let a = self.acq;
            join(&mut self.cur, &a);
        }
        if ord.releases() {
            self.rel = self.cur;
        }
        before != *self
    }
}
