//! E1: the real ShmWriter / ShmReader under a simulated memory model. DESIGN.md section 3.
//!
//! Phase A records the writer's trace (it is a deterministic function of the initial file, the
//! records and the crash points, because readers never store): every intercepted store, record
//! chunk copy and file operation becomes an event with a snapshot of the file after it, and a
//! message in the location's modification order. Phase B explores one reader exhaustively against
//! that trace: attach position x read-from choice at every load (RA mode) or writer progress before
//! every load (SC mode), with a breadth-first search over the reader's cache states between calls.

use super::ra::{Mem, Msg, Ord, TView, View, MAXLOC};
use crate::common::rec::{Rec, REC_SIZE};
use clock_bound_shm::verif::{self, Hooks};
use clock_bound_shm::{ClockErrorBound, ShmError, ShmReader, ShmWrite, ShmWriter};
use std::cell::RefCell;
use std::collections::{BTreeMap, BTreeSet, VecDeque};
use std::ffi::CString;
use std::path::{Path, PathBuf};

pub const LOC_VERSION: usize = 0;
pub const LOC_GEN: usize = 1;
pub const LOC_DATA: usize = 2;
pub const HDR: usize = 16;
pub const SEG: usize = 72;

#[derive(Clone, Copy, Debug, PartialEq, Eq)]
pub enum Mode {
    /// C11 release/acquire: every load chooses among the messages its view allows
    Ra,
    /// sequential consistency: before every load the explorer chooses how far the writer has got
    Sc,
}

#[derive(Clone, Copy, Debug, PartialEq, Eq)]
enum Role {
    Off,
    Writer,
    Reader,
}

#[derive(Clone, Debug, PartialEq)]
pub enum EvKind {
    /// a file operation of wipe() completed
    Point(&'static str),
    Store { loc: usize, val: u16, ord: Ord },
    Data { chunk: usize },
    Fence(Ord),
}

#[derive(Clone, Debug)]
pub struct Event {
    pub kind: EvKind,
    pub inc: usize,
    /// file content after the event (None: no file)
    pub snap: Option<Vec<u8>>,
    /// index of the write() call this event belongs to, if any
    pub span: Option<usize>,
}

#[derive(Clone, Debug)]
pub struct WriteSpan {
    /// publication index (1, 2, ... across incarnations; 0 is the record of a valid initial file)
    pub k: i64,
    pub inc: usize,
    pub begin: u32,
    /// position at which the call returned (None: the writer died inside it)
    pub end: Option<u32>,
    pub gen_entry: u16,
    pub gen_stores: Vec<u16>,
    pub rec: Rec,
}

#[derive(Clone, Debug)]
pub struct Incarnation {
    pub begin: u32,
    pub end: u32,
    pub crashed: bool,
    pub new_ok: bool,
    pub wiped: bool,
    pub usable_before: bool,
    /// identity (st_dev, st_ino) of what the segment path names: before this incarnation starts, once
    /// `ShmWriter::new` has returned, and after the incarnation has ended (writer dropped / unwound)
    pub ino_before: Option<(u64, u64)>,
    pub ino_after_new: Option<(u64, u64)>,
    pub ino_after_exit: Option<(u64, u64)>,
}

#[derive(Clone, Debug, Default)]
pub struct Trace {
    /// Scenario::file_times (applied to the file a reader attaches to as well)
    pub file_times: u8,
    pub init_snap: Option<Vec<u8>>,
    pub events: Vec<Event>,
    pub mem: Mem,
    pub spans: Vec<WriteSpan>,
    pub incs: Vec<Incarnation>,
    pub chunks: Vec<(usize, usize)>,
    pub inflight: Vec<bool>,
}

impl Trace {
    pub fn len(&self) -> u32 {
        self.events.len() as u32
    }
    /// file content at trace position p (0 = initial)
    pub fn snap_at(&self, p: u32) -> Option<&Vec<u8>> {
        if p == 0 {
            self.init_snap.as_ref()
        } else {
            self.events[p as usize - 1].snap.as_ref()
        }
    }
    /// records a reader may legitimately return when the trace is cut at `end`: index -> record
    pub fn published_at(&self, end: u32) -> Vec<(i64, Rec)> {
        let mut v = vec![(-1, Rec::from_ceb(&ClockErrorBound::default()))];
        if let Some(s) = &self.init_snap {
            if reference_valid(s) && s.len() >= SEG {
                let g = u16::from_ne_bytes([s[14], s[15]]);
                if g % 2 == 0 {
                    v.push((0, Rec::from_bytes(&s[HDR..HDR + REC_SIZE])));
                }
            }
        }
        for sp in &self.spans {
            if let Some(e) = sp.end {
                if e <= end {
                    v.push((sp.k, sp.rec));
                }
            }
        }
        v
    }
    /// generation value in the file at position p
    pub fn gen_at(&self, p: u32) -> Option<u16> {
        self.snap_at(p).filter(|s| s.len() >= 16).map(|s| u16::from_ne_bytes([s[14], s[15]]))
    }
    pub fn version_at(&self, p: u32) -> Option<u16> {
        self.snap_at(p).filter(|s| s.len() >= 16).map(|s| u16::from_ne_bytes([s[12], s[13]]))
    }
    /// latest publication completed at position p (index), if any
    pub fn latest_completed_at(&self, p: u32) -> i64 {
        let mut best = -1;
        for (k, _) in self.published_at(p) {
            best = best.max(k);
        }
        best
    }
    /// true if at position p no update is in flight and the segment is live
    pub fn idle_at(&self, p: u32) -> bool {
        match (self.version_at(p), self.gen_at(p)) {
            // "no update in flight" is a fact about the writer (no write() call in progress), not about the
            // parity of the generation: a writer that leaves an odd generation behind after completing an
            // update must not make every later call look excusable
            (Some(v), Some(g)) => v != 0 && (g != 0 || self.spans.iter().any(|s| s.end.map(|e| e <= p).unwrap_or(false))) && !self.inflight.get(p as usize).copied().unwrap_or(false),
            _ => false,
        }
    }
    /// An idle position q <= end such that every (location, timestamp) read is the latest message of
    /// its location as of q ("no update in flight while the call executes").
    pub fn idle_point_explaining(&self, reads: &[(u8, u32)], from: u32, end: u32) -> Option<u32> {
        'q: for q in from..=end {
            if !self.idle_at(q) {
                continue;
            }
            for (loc, ts) in reads {
                if self.mem.count_at(*loc as usize, q) != *ts as usize + 1 {
                    continue 'q;
                }
            }
            return Some(q);
        }
        None
    }
    /// inflight[p]: a write() call has started and no write() call has completed since
    fn compute_inflight(&mut self) {
        let n = self.events.len() + 1;
        let mut v = vec![false; n];
        let mut flag = false;
        for p in 0..n as u32 {
            for s in &self.spans {
                if s.begin + 1 == p {
                    flag = true;
                }
            }
            for s in &self.spans {
                if s.end == Some(p) {
                    flag = false;
                }
            }
            v[p as usize] = flag;
        }
        self.inflight = v;
    }
}

/// Validity of a segment file as the documentation describes it (magic, version, generation,
/// declared size). Used to decide where a reader may attach.
pub fn reference_valid(b: &[u8]) -> bool {
    if b.len() < HDR {
        return false;
    }
    let m0 = u32::from_ne_bytes(b[0..4].try_into().unwrap());
    let m1 = u32::from_ne_bytes(b[4..8].try_into().unwrap());
    let size = u32::from_ne_bytes(b[8..12].try_into().unwrap());
    let ver = u16::from_ne_bytes([b[12], b[13]]);
    let gen = u16::from_ne_bytes([b[14], b[15]]);
    m0 == 0x414D5A4E && m1 == 0x43420200 && ver != 0 && gen != 0 && size as usize >= SEG
}

pub fn chunking(c: usize) -> Vec<(usize, usize)> {
    match c {
        7 => (0..7).map(|i| (i * 8, 8)).collect(),
        2 => vec![(0, 24), (24, 32)],
        4 => vec![(0, 16), (16, 16), (32, 8), (40, 16)],
        1 => vec![(0, 56)],
        _ => panic!("unsupported chunking"),
    }
}

// ---------------------------------------------------------------------------------------------

pub struct CrashSentinel;
pub struct CutSentinel(pub &'static str);

#[derive(Clone, Debug, Default)]
pub struct CallStats {
    pub loads: u64,
    pub data_reads: u64,
    pub first_version: Option<u16>,
    pub first_gen: Option<u16>,
    pub gens_seen: Vec<u16>,
    pub sc_p_first: u32,
    pub sc_p_last: u32,
    pub forced_spins: u64,
    /// SC mode: writer position at which the call was entered (calls are ordered in real time with the
    /// publications that completed before they began, whether or not they load anything)
    pub entry_pos: u32,
    /// (location, timestamp) of the first loads of the call (for the idle-freshness oracle)
    pub reads: Vec<(u8, u32)>,
    pub reads_overflow: bool,
}

struct Engine {
    role: Role,
    mode: Mode,
    failure: Option<String>,
    // ---- writer
    path: PathBuf,
    wmap: Option<(usize, usize)>,
    trace: Trace,
    wtv: TView,
    crash_at: Option<u32>,
    cur_inc: usize,
    cur_span: Option<usize>,
    check_bypass: bool,
    // ---- reader
    /// (st_dev, st_ino) of the file the reader under exploration opens
    rfile: Option<(u64, u64)>,
    rmap: Option<(usize, usize)>,
    rtv: TView,
    end: u32,
    sc_p: u32,
    prefix: Vec<u32>,
    taken: Vec<(u32, u32)>,
    devs: u32,
    dev_bound: u32,
    last_ts: [i64; MAXLOC],
    last_epoch: [u64; MAXLOC],
    silent: [u32; MAXLOC],
    epoch: u64,
    forced_run: u64,
    cut_after: u64,
    max_data_reads: u64,
    overrun: bool,
    call: CallStats,
}

impl Engine {
    fn new() -> Engine {
        Engine {
            role: Role::Off,
            mode: Mode::Ra,
            failure: None,
            path: PathBuf::new(),
            wmap: None,
            trace: Trace::default(),
            wtv: TView::new([0; MAXLOC]),
            crash_at: None,
            cur_inc: 0,
            cur_span: None,
            check_bypass: true,
            rfile: None,
            rmap: None,
            rtv: TView::new([0; MAXLOC]),
            end: 0,
            sc_p: 0,
            prefix: vec![],
            taken: vec![],
            devs: 0,
            dev_bound: u32::MAX,
            last_ts: [-1; MAXLOC],
            last_epoch: [0; MAXLOC],
            silent: [0; MAXLOC],
            epoch: 1,
            forced_run: 0,
            cut_after: u64::MAX,
            max_data_reads: u64::MAX,
            overrun: false,
            call: CallStats::default(),
        }
    }

    fn offset_of(&self, addr: usize) -> Option<usize> {
        let m = match self.role {
            Role::Writer => self.wmap,
            Role::Reader => self.rmap,
            Role::Off => None,
        }?;
        if addr >= m.0 && addr < m.0 + m.1 {
            Some(addr - m.0)
        } else {
            None
        }
    }

    fn fail(&mut self, msg: String) {
        if self.failure.is_none() {
            self.failure = Some(msg);
        }
    }

    fn atomic_loc(&mut self, off: usize, size: usize) -> Option<usize> {
        match (off, size) {
            (12, 2) => Some(LOC_VERSION),
            (14, 2) => Some(LOC_GEN),
            _ => {
                self.fail(format!("unmodelled atomic access at segment offset {off} (size {size})"));
                None
            }
        }
    }

    // ---- writer side ----------------------------------------------------------------------

    fn file_snap(&self) -> Option<Vec<u8>> {
        // once the writer has mapped the file, the mapping is the file (MAP_SHARED): copy from it
        // instead of going through open/read/close for every event
        if let (Some((addr, len)), Some(prev)) = (self.wmap, self.trace.snap_at(self.trace.len())) {
            if prev.len() >= len {
                let mut s = prev.clone();
                // SAFETY: addr..addr+len is the writer's live mapping
                unsafe { std::ptr::copy_nonoverlapping(addr as *const u8, s.as_mut_ptr(), len) };
                return Some(s);
            }
        }
        std::fs::read(&self.path).ok()
    }

    fn push_event(&mut self, kind: EvKind) -> bool {
        let snap = self.file_snap();
        self.trace.events.push(Event { kind, inc: self.cur_inc, snap, span: self.cur_span });
        let pos = self.trace.len();
        if self.check_bypass {
            self.bypass_check(pos);
        }
        self.crash_at == Some(pos)
    }

    /// the bytes of the file must be explained by the intercepted stores
    fn bypass_check(&mut self, pos: u32) {
        let snap = match self.trace.snap_at(pos) {
            Some(s) if s.len() >= SEG => s.clone(),
            _ => return,
        };
        let mut bad = None;
        for loc in 0..self.trace.mem.msgs.len() {
            if let Some(m) = self.trace.mem.latest(loc) {
                let (o, l) = self.loc_range(loc);
                if snap[o..o + l] != m.val[..l] {
                    // padding bytes of the record are not meaningful
                    let mut a = snap[o..o + l].to_vec();
                    let mut b = m.val[..l].to_vec();
                    mask_padding(o, &mut a);
                    mask_padding(o, &mut b);
                    if a != b {
                        bad = Some(loc);
                    }
                }
            }
        }
        if let Some(loc) = bad {
            self.fail(format!("segment bytes of location {loc} at trace position {pos} are not explained by intercepted stores (uninstrumented access?)"));
        }
    }

    fn loc_range(&self, loc: usize) -> (usize, usize) {
        match loc {
            LOC_VERSION => (12, 2),
            LOC_GEN => (14, 2),
            _ => {
                let (o, l) = self.trace.chunks[loc - LOC_DATA];
                (HDR + o, l)
            }
        }
    }

    /// After a file operation: turn the bytes that changed into messages (a system call
    /// synchronises with everything).
    fn absorb_file(&mut self, pos: u32) {
        let snap = match self.trace.snap_at(pos) {
            Some(s) => s.clone(),
            None => return,
        };
        let nloc = LOC_DATA + self.trace.chunks.len();
        for loc in 0..nloc {
            let (o, l) = self.loc_range(loc);
            if snap.len() < o + l {
                continue;
            }
            let bytes = snap[o..o + l].to_vec();
            let differs = match self.trace.mem.latest(loc) {
                Some(m) => m.val[..l] != bytes[..],
                None => true,
            };
            if differs {
                let ts = self.trace.mem.msgs[loc].len() as u32;
                self.wtv.cur[loc] = ts;
                self.trace.mem.msgs[loc].push(Msg { val: bytes, view: [0; MAXLOC], ev: pos });
            }
        }
        // full synchronisation: every message created by a file operation carries the full view
        let full = self.trace.mem.full_view_at(pos);
        for loc in 0..nloc {
            if let Some(m) = self.trace.mem.msgs[loc].last_mut() {
                if m.ev == pos {
                    m.view = full;
                }
            }
        }
        self.wtv.cur = full;
        self.wtv.acq = full;
        self.wtv.rel = full;
    }

    fn on_point(&mut self, name: &'static str) -> bool {
        if self.role != Role::Writer {
            return false;
        }
        let crash = self.push_event_nocheck(EvKind::Point(name));
        let pos = self.trace.len();
        self.absorb_file(pos);
        if let Some(i) = self.trace.incs.last_mut() {
            i.wiped = true;
        }
        crash
    }

    fn push_event_nocheck(&mut self, kind: EvKind) -> bool {
        let snap = self.file_snap();
        self.trace.events.push(Event { kind, inc: self.cur_inc, snap, span: self.cur_span });
        self.crash_at == Some(self.trace.len())
    }

    fn on_store(&mut self, addr: usize, size: usize, ord: Ord, val: u64, rmw: bool) -> bool {
        let off = match self.offset_of(addr) {
            Some(o) => o,
            None => return false,
        };
        if self.role == Role::Reader {
            self.fail("the reader stored to the shared segment".into());
            return false;
        }
        let loc = match self.atomic_loc(off, size) {
            Some(l) => l,
            None => return false,
        };
        let pos = self.trace.len() + 1;
        let bytes = (val as u16).to_ne_bytes().to_vec();
        if rmw {
            self.wtv.rmw(&mut self.trace.mem, loc, bytes, ord, pos);
        } else {
            self.wtv.store(&mut self.trace.mem, loc, bytes, ord, pos);
        }
        if loc == LOC_GEN {
            if let Some(s) = self.cur_span {
                self.trace.spans[s].gen_stores.push(val as u16);
            }
        }
        self.push_event(EvKind::Store { loc, val: val as u16, ord })
    }

    /// copy `len` bytes to segment offset `off`, chunk by chunk, one message per chunk
    fn on_data_write(&mut self, dst: usize, src: *const u8, len: usize) -> bool {
        let off = match self.offset_of(dst) {
            Some(o) if self.role == Role::Writer => o,
            _ => {
                // not a tracked mapping: plain copy
                // SAFETY: contract of the hook (valid, non-overlapping)
                unsafe { std::ptr::copy_nonoverlapping(src, dst as *mut u8, len) };
                return false;
            }
        };
        if off < HDR || off + len > HDR + REC_SIZE {
            self.fail(format!("unmodelled data write at segment offset {off} (len {len})"));
            return false;
        }
        let (roff, rend) = (off - HDR, off - HDR + len);
        let chunks = self.trace.chunks.clone();
        for (ci, (co, cl)) in chunks.iter().enumerate() {
            let (lo, hi) = ((*co).max(roff), (co + cl).min(rend));
            if lo >= hi {
                continue;
            }
            // SAFETY: dst range is inside the writer's mapping, src is valid for len bytes
            unsafe { std::ptr::copy_nonoverlapping(src.add(lo - roff), (dst + (lo - roff)) as *mut u8, hi - lo) };
            let loc = LOC_DATA + ci;
            let mut val = self.trace.mem.latest(loc).map(|m| m.val.clone()).unwrap_or_else(|| vec![0; *cl]);
            // SAFETY: as above
            let newb = unsafe { std::slice::from_raw_parts(src.add(lo - roff), hi - lo) };
            val[lo - co..hi - co].copy_from_slice(newb);
            let pos = self.trace.len() + 1;
            self.wtv.store(&mut self.trace.mem, loc, val, Ord::Relaxed, pos);
            if self.push_event(EvKind::Data { chunk: ci }) {
                return true;
            }
        }
        false
    }

    // ---- reader side ----------------------------------------------------------------------

    fn choose(&mut self, n: u32) -> u32 {
        let i = self.taken.len();
        let c = if i < self.prefix.len() { self.prefix[i] } else { 0 };
        if c >= n {
            self.fail(format!("replay divergence: choice {c} of {n} at choice point {i}"));
            self.taken.push((0, n));
            return 0;
        }
        self.taken.push((c, n));
        c
    }

    /// RA mode: pick the message a load of `loc` reads (choice 0 = the latest one), with stutter
    /// elimination (DESIGN.md 3.3).
    fn pick_ra(&mut self, loc: usize) -> usize {
        let lo = self.rtv.floor(loc) as usize;
        let len = self.trace.mem.count_at(loc, self.end);
        debug_assert!(lo < len);
        let latest = lo + 1 == len;
        let is_reread = self.last_ts[loc] == lo as i64;
        let unchanged = self.last_epoch[loc] == self.epoch;
        let skip_stay = is_reread && unchanged && self.silent[loc] >= 1 && !latest;
        let base = if skip_stay { lo + 1 } else { lo };
        let n = len - base;
        let ts = if n == 1 {
            if is_reread && unchanged {
                self.call.forced_spins += 1;
                self.forced_run += 1;
            }
            base
        } else {
            let n_eff = if self.devs >= self.dev_bound { 1 } else { n as u32 };
            let c = if n_eff == 1 { 0 } else { self.choose(n_eff) };
            if c > 0 {
                self.devs += 1;
            }
            self.forced_run = 0;
            len - 1 - c as usize
        };
        if ts as i64 == self.last_ts[loc] && unchanged {
            self.silent[loc] += 1;
        } else {
            self.silent[loc] = 0;
        }
        self.last_ts[loc] = ts as i64;
        ts
    }

    /// SC mode: choose how far the writer advances before this load (choice 0 = not at all), then
    /// read the latest message. Staying at the same writer position for a third consecutive load
    /// of the same location is not offered while the writer can still advance: the reader, being
    /// deterministic, would repeat its previous iteration (same argument as for RA stutter).
    fn pick_sc(&mut self, loc: usize) -> usize {
        // Only positions at which a newer message of *this* location appears are offered: any other
        // advance reads the same value here and can be taken later (lower positions are more
        // general for the loads that follow), so every sequence of values an SC interleaving can
        // produce is produced by one of these canonical choices.
        let mut later: Vec<u32> = vec![];
        if self.devs < self.dev_bound {
            for m in &self.trace.mem.msgs[loc] {
                if m.ev > self.sc_p && m.ev <= self.end {
                    later.push(m.ev);
                }
            }
        }
        let is_reread = self.last_ts[loc] == self.sc_p as i64;
        let skip_stay = is_reread && self.silent[loc] >= 1 && !later.is_empty();
        let mut cands: Vec<u32> = if skip_stay { vec![] } else { vec![self.sc_p] };
        cands.extend(later);
        let c = if cands.len() == 1 { 0 } else { self.choose(cands.len() as u32) };
        let target = cands[c as usize];
        if target != self.sc_p {
            self.devs += 1;
            self.forced_run = 0;
        } else if cands.len() == 1 && is_reread {
            self.forced_run += 1;
            self.call.forced_spins += 1;
        }
        if is_reread && target == self.sc_p {
            self.silent[loc] += 1;
        } else {
            self.silent[loc] = 0;
        }
        self.sc_p = target;
        self.last_ts[loc] = target as i64;
        if self.call.loads == 0 {
            self.call.sc_p_first = self.sc_p;
        }
        self.call.sc_p_last = self.sc_p;
        self.trace.mem.count_at(loc, self.sc_p) - 1
    }

    fn reader_load(&mut self, loc: usize, ord: Ord) -> Vec<u8> {
        let ts = match self.mode {
            Mode::Ra => self.pick_ra(loc),
            Mode::Sc => self.pick_sc(loc),
        };
        self.call.loads += 1;
        if self.call.reads.len() < 256 {
            self.call.reads.push((loc as u8, ts as u32));
        } else {
            self.call.reads_overflow = true;
        }
        let m = self.trace.mem.msgs[loc][ts].clone();
        if self.mode == Mode::Ra {
            if self.rtv.apply_load(loc, ts as u32, &m.view, ord) {
                self.epoch += 1;
            }
            self.last_epoch[loc] = self.epoch;
        }
        m.val
    }

    fn on_load(&mut self, addr: usize, size: usize, ord: Ord, real: u64) -> u64 {
        let off = match self.offset_of(addr) {
            Some(o) => o,
            None => return real,
        };
        if self.role == Role::Writer {
            return real; // the single writer reads its own latest store
        }
        if self.call.loads > self.max_data_reads.saturating_mul(16).saturating_add(1024) {
            self.overrun = true;
            return real;
        }
        let loc = match self.atomic_loc(off, size) {
            Some(l) => l,
            None => return real,
        };
        let v = self.reader_load(loc, ord);
        let val = u16::from_ne_bytes([v[0], v[1]]);
        if loc == LOC_VERSION && self.call.first_version.is_none() {
            self.call.first_version = Some(val);
        }
        if loc == LOC_GEN {
            if self.call.first_gen.is_none() {
                self.call.first_gen = Some(val);
            }
            if self.call.gens_seen.last() != Some(&val) && self.call.gens_seen.len() < 64 {
                self.call.gens_seen.push(val);
            }
        }
        val as u64
    }

    /// returns Some(reason) if the call must be cut
    fn on_data_read(&mut self, src: usize, dst: *mut u8, len: usize) -> Option<&'static str> {
        let off = match self.offset_of(src) {
            Some(o) if self.role == Role::Reader => o,
            _ => {
                // SAFETY: contract of the hook
                unsafe { std::ptr::copy_nonoverlapping(src as *const u8, dst, len) };
                return None;
            }
        };
        if off < HDR || off + len > HDR + REC_SIZE {
            self.fail(format!("unmodelled data read at segment offset {off} (len {len})"));
            // SAFETY: contract of the hook
            unsafe { std::ptr::copy_nonoverlapping(src as *const u8, dst, len) };
            return None;
        }
        self.call.data_reads += 1;
        if self.call.data_reads > self.max_data_reads {
            return Some("unbounded");
        }
        if self.forced_run > self.cut_after {
            return Some("spin");
        }
        let (roff, rend) = (off - HDR, off - HDR + len);
        let chunks = self.trace.chunks.clone();
        for (ci, (co, cl)) in chunks.iter().enumerate() {
            let (lo, hi) = ((*co).max(roff), (co + cl).min(rend));
            if lo >= hi {
                continue;
            }
            let v = self.reader_load(LOC_DATA + ci, Ord::Relaxed);
            // SAFETY: dst is valid for len bytes
            unsafe { std::ptr::copy_nonoverlapping(v[lo - co..].as_ptr(), dst.add(lo - roff), hi - lo) };
        }
        None
    }

    /// A read(2)/pread(2) of the segment file by the reader: the header bytes keep the content the file
    /// had at the attach position (the attach position *is* the moment the header is read); record bytes
    /// are loads of the simulated memory, one relaxed load per chunk, with the same read-from choices as a
    /// copy through the mapping (the daemon may be anywhere in its trace by the time the kernel copies).
    fn on_file_read(&mut self, off: usize, dst: *mut u8, n: usize) {
        let (lo0, hi0) = (off.max(HDR), (off + n).min(HDR + REC_SIZE));
        if lo0 >= hi0 {
            return;
        }
        let (roff, rend) = (lo0 - HDR, hi0 - HDR);
        let chunks = self.trace.chunks.clone();
        for (ci, (co, cl)) in chunks.iter().enumerate() {
            let (lo, hi) = ((*co).max(roff), (co + cl).min(rend));
            if lo >= hi {
                continue;
            }
            if self.trace.mem.count_at(LOC_DATA + ci, self.end) == 0 {
                continue;
            }
            let v = self.reader_load(LOC_DATA + ci, Ord::Relaxed);
            // SAFETY: dst is valid for n bytes starting at file offset off
            unsafe { std::ptr::copy_nonoverlapping(v[lo - co..].as_ptr(), dst.add(HDR + lo - off), hi - lo) };
        }
    }

    fn on_fence(&mut self, ord: Ord) {
        match self.role {
            Role::Writer => {
                self.wtv.fence(ord);
            }
            Role::Reader => {
                if self.mode == Mode::Ra && self.rtv.fence(ord) {
                    self.epoch += 1;
                }
            }
            Role::Off => {}
        }
    }

    /// SC mode, at the entry of a snapshot() call: the writer may have completed any number of publications since
    /// the previous call returned (choice 0: none). Only idle positions are offered: an advance into the middle of
    /// an update is what the choices at the call's loads are for.
    fn enter_call(&mut self) {
        if self.mode != Mode::Sc {
            return;
        }
        let mut cands: Vec<u32> = vec![self.sc_p];
        if self.devs < self.dev_bound {
            for p in self.sc_p + 1..=self.end {
                if self.trace.idle_at(p) && self.trace.events.get(p as usize - 1).map(|e| matches!(e.kind, EvKind::Store { loc: LOC_GEN, .. })).unwrap_or(false) {
                    cands.push(p);
                }
            }
        }
        let c = if cands.len() == 1 { 0 } else { self.choose(cands.len() as u32) };
        if c > 0 {
            self.devs += 1;
        }
        self.sc_p = cands[c as usize];
        self.call.entry_pos = self.sc_p;
    }

    fn begin_call(&mut self, prefix: Vec<u32>) {
        self.prefix = prefix;
        self.taken.clear();
        self.devs = 0;
        self.last_ts = [-1; MAXLOC];
        self.last_epoch = [0; MAXLOC];
        self.silent = [0; MAXLOC];
        self.forced_run = 0;
        self.call = CallStats::default();
    }
}

fn mask_padding(seg_off: usize, bytes: &mut [u8]) {
    // record bytes 52..56 (segment offsets 68..72) are struct padding
    for (i, b) in bytes.iter_mut().enumerate() {
        let o = seg_off + i;
        if (68..72).contains(&o) {
            *b = 0;
        }
    }
}

thread_local! { static E: RefCell<Engine> = RefCell::new(Engine::new()); }

fn with<R>(f: impl FnOnce(&mut Engine) -> R) -> R {
    E.with(|e| f(&mut e.borrow_mut()))
}

fn h_load(addr: usize, size: usize, o: std::sync::atomic::Ordering, real: u64) -> u64 {
    let (v, overrun) = with(|e| if e.role == Role::Off { (real, false) } else { (e.on_load(addr, size, Ord::from_std(o), real), std::mem::take(&mut e.overrun)) });
    if overrun {
        std::panic::resume_unwind(Box::new(CutSentinel("unbounded")));
    }
    v
}
fn h_store(addr: usize, size: usize, o: std::sync::atomic::Ordering, v: u64) {
    let crash = with(|e| if e.role == Role::Off { false } else { e.on_store(addr, size, Ord::from_std(o), v, false) });
    if crash {
        std::panic::resume_unwind(Box::new(CrashSentinel));
    }
}
fn h_rmw(addr: usize, size: usize, o: std::sync::atomic::Ordering, old: u64, new: u64) -> u64 {
    let crash = with(|e| if e.role == Role::Off { false } else { e.on_store(addr, size, Ord::from_std(o), new, true) });
    if crash {
        std::panic::resume_unwind(Box::new(CrashSentinel));
    }
    old
}
fn h_fence(o: std::sync::atomic::Ordering) {
    with(|e| e.on_fence(Ord::from_std(o)));
}
fn h_data_write(dst: usize, src: *const u8, len: usize) {
    let crash = with(|e| {
        if e.role == Role::Off {
            // SAFETY: contract of the hook
            unsafe { std::ptr::copy_nonoverlapping(src, dst as *mut u8, len) };
            false
        } else {
            e.on_data_write(dst, src, len)
        }
    });
    if crash {
        std::panic::resume_unwind(Box::new(CrashSentinel));
    }
}
/// Directed adversary for the "continuously updating writer" clause: after every record copy of the
/// reader (i.e. before its re-check of the generation) a real writer completes one more update.
pub struct Adversary {
    pub writer: ShmWriter,
    pub updates: u64,
    pub max_updates: u64,
    pub copies: u64,
}
thread_local! { pub static ADVERSARY: RefCell<Option<Adversary>> = const { RefCell::new(None) }; }

fn h_data_read(src: usize, dst: *mut u8, len: usize) {
    let adv = ADVERSARY.with(|a| a.borrow_mut().take());
    if let Some(mut adv) = adv {
        // SAFETY: contract of the hook
        unsafe { std::ptr::copy_nonoverlapping(src as *const u8, dst, len) };
        adv.copies += 1;
        if adv.updates < adv.max_updates {
            adv.updates += 1;
            adv.writer.write(&tagged(2 + (adv.updates % 1000) as i64).to_ceb());
        }
        ADVERSARY.with(|a| *a.borrow_mut() = Some(adv));
        return;
    }
    let cut = with(|e| {
        if e.role == Role::Off {
            // SAFETY: contract of the hook
            unsafe { std::ptr::copy_nonoverlapping(src as *const u8, dst, len) };
            None
        } else {
            e.on_data_read(src, dst, len)
        }
    });
    if let Some(reason) = cut {
        std::panic::resume_unwind(Box::new(CutSentinel(reason)));
    }
}
fn h_file_read(fd: i32, off: i64, buf: *mut u8, n: usize) {
    let want = match E.try_with(|e| e.try_borrow().ok().and_then(|e| if e.role == Role::Reader { e.rfile } else { None })) {
        Ok(Some(w)) => w,
        _ => return,
    };
    // SAFETY: fstat on a caller-supplied descriptor into a zeroed buffer
    let st = unsafe {
        let mut st: libc::stat = std::mem::zeroed();
        if libc::fstat(fd, &mut st) != 0 {
            return;
        }
        st
    };
    if (st.st_dev as u64, st.st_ino as u64) != want {
        return;
    }
    with(|e| e.on_file_read(off as usize, buf, n));
}

fn h_point(name: &'static str) {
    let crash = with(|e| e.on_point(name));
    if crash {
        std::panic::resume_unwind(Box::new(CrashSentinel));
    }
}
fn h_map(addr: usize, len: usize, writable: bool) {
    with(|e| match (e.role, writable) {
        (Role::Writer, true) => e.wmap = Some((addr, len)),
        (Role::Reader, false) => e.rmap = Some((addr, len)),
        _ => {}
    });
}
fn h_remap(_p: &Path) -> Option<PathBuf> {
    None
}

static HOOKS: Hooks = Hooks { load: h_load, store: h_store, rmw: h_rmw, fence: h_fence, data_write: h_data_write, data_read: h_data_read, point: h_point, map: h_map, remap_path: h_remap };

pub fn install() {
    raise_fd_limit();
    verif::install(&HOOKS);
    crate::common::iofault::set_file_read_hook(h_file_read);
}

// ---------------------------------------------------------------------------------------------
// Phase A: scenarios and writer traces

#[derive(Clone, Debug, PartialEq, Eq, Hash, PartialOrd, Ord)]
pub enum Init {
    Absent,
    /// a valid segment whose generation is g (even: idle; odd: left by a crashed writer)
    Valid(u16),
    /// arbitrary bytes
    Bytes(Vec<u8>),
}

#[derive(Clone, Debug, PartialEq, Eq, Hash, PartialOrd, Ord)]
pub struct Scenario {
    pub init: Init,
    /// per incarnation: number of write() calls attempted, crash position relative to the start of
    /// the incarnation (None: clean exit after the writes)
    pub incs: Vec<(usize, Option<u32>)>,
    pub chunks: usize,
    /// 0: every word of publication k carries k; 1: consecutive publications differ in the status word only;
    /// 2: real records alternate with the all-zero placeholder; 3: the same record is published repeatedly;
    /// 4: like 0, with a drift word of 2e9 and more (records a client's now() rejects)
    pub family: u8,
    /// what the segment file's time stamps say when a daemon (re)starts on it and when a client attaches:
    /// 0 whatever the file system put there (just now); 1 last touched 2400 s ago (a daemon that had been up
    /// for 40 minutes: stores through the mapping do not move st_mtime); 2 January 2001 (before this machine
    /// booted: the wall clock was stepped since); 3 one hour in the future (the wall clock was stepped back);
    /// 4 / 5: not time stamps but permission bits - mode 0664 / 0666 (a daemon started under umask 002 / 000);
    /// 6 / 7: not time stamps but the owner - the file belongs to uid and gid 65534, mode 0644 / 0666 (the previous
    /// daemon ran as a service user and this one as root, or the unit's User= changed; only when the harness is root)
    pub file_times: u8,
}

/// Apply `Scenario::file_times` to a file.
pub fn stamp_file(path: &Path, mode: u8) {
    // 4 / 5: the permission bits a daemon started under umask 002 / 000 leaves (rw-rw-r-- / rw-rw-rw-)
    if mode == 4 || mode == 5 {
        use std::os::unix::fs::PermissionsExt;
        let _ = std::fs::set_permissions(path, std::fs::Permissions::from_mode(if mode == 4 { 0o664 } else { 0o666 }));
        return;
    }
    if mode == 6 || mode == 7 {
        use std::os::unix::fs::PermissionsExt;
        if crate::common::privdrop::is_root() && path.exists() {
            let _ = std::os::unix::fs::chown(path, Some(crate::common::privdrop::NOBODY), Some(crate::common::privdrop::NOBODY));
            let _ = std::fs::set_permissions(path, std::fs::Permissions::from_mode(if mode == 6 { 0o644 } else { 0o666 }));
        }
        return;
    }
    let secs: i64 = match mode {
        1 => (crate::common::vclock::raw_real_s() as i64) - 2400,
        2 => 978_307_200,
        3 => (crate::common::vclock::raw_real_s() as i64) + 3600,
        _ => return,
    };
    if let Ok(c) = CString::new(path.to_str().unwrap_or("")) {
        let t = libc::timespec { tv_sec: secs, tv_nsec: 0 };
        let times = [t, t];
        // SAFETY: valid path and array of two timespecs
        unsafe { libc::utimensat(libc::AT_FDCWD, c.as_ptr(), times.as_ptr(), 0) };
    }
}

impl Scenario {
    pub fn json(&self) -> serde_json::Value {
        serde_json::json!({
            "initial_file": match &self.init { Init::Absent => "absent".to_string(), Init::Valid(g) => format!("valid segment, generation {g}"), Init::Bytes(b) => format!("{} raw bytes", b.len()) },
            "init_generation": match &self.init { Init::Valid(g) => serde_json::json!(g), _ => serde_json::Value::Null },
            "init_bytes": match &self.init { Init::Bytes(b) => serde_json::json!(b), _ => serde_json::Value::Null },
            "incarnations": self.incs.iter().map(|(k, c)| serde_json::json!({"writes": k, "crash_after_event": c})).collect::<Vec<_>>(),
            "record_chunks": self.chunks,
            "record_family": self.family,
            "segment_file_times": self.file_times,
        })
    }
    pub fn from_json(v: &serde_json::Value) -> Scenario {
        let init = if let Some(g) = v["init_generation"].as_u64() {
            Init::Valid(g as u16)
        } else if let Some(b) = v["init_bytes"].as_array() {
            Init::Bytes(b.iter().map(|x| x.as_u64().unwrap() as u8).collect())
        } else {
            Init::Absent
        };
        Scenario {
            init,
            incs: v["incarnations"].as_array().unwrap().iter().map(|i| (i["writes"].as_u64().unwrap() as usize, i["crash_after_event"].as_u64().map(|c| c as u32))).collect(),
            chunks: v["record_chunks"].as_u64().unwrap() as usize,
            family: v["record_family"].as_u64().unwrap_or(0) as u8,
            file_times: v["segment_file_times"].as_u64().unwrap_or(0) as u8,
        }
    }
}

/// Record of publication k: every 8-byte word carries k (status: k mod 3, the only valid values).
pub fn tagged(k: i64) -> Rec {
    Rec { as_of_s: k, as_of_ns: k, va_s: k, va_ns: k, bound: k, drift: k as u32, reserved: k as u32, status: (k % 3) as u32 }
}

/// Record of publication k (0 = the record of a valid initial file) in the scenario's record family.
pub fn record_for(family: u8, k: i64) -> Rec {
    match family {
        0 => tagged(if k == 0 { 1000 } else { k }),
        1 => Rec { as_of_s: 5000, as_of_ns: 123_456_789, va_s: 6000, va_ns: 0, bound: 77_000_001, drift: 1000, reserved: 0, status: [1u32, 2, 0][(k.rem_euclid(3)) as usize] },
        // 2: a real record alternating with the daemon's placeholder record (what a restarted daemon
        // publishes until chrony is synchronised again): zeros are data too
        2 => {
            if k.rem_euclid(2) == 1 {
                Rec { as_of_s: 5000 + k, as_of_ns: 123_456_789, va_s: 6000 + k, va_ns: 0, bound: 77_000_001, drift: 1000, reserved: 0, status: 1 }
            } else {
                Rec { as_of_s: 0, as_of_ns: 0, va_s: 1000, va_ns: 0, bound: 0, drift: 1000, reserved: 0, status: 0 }
            }
        }
        // 4: records a client refuses to evaluate (drift of 2e9 ppb and more - what a daemon started with
        // --max-drift-rate 2000000 publishes): for the segment protocol they are records like any other
        4 => Rec { drift: 2_000_000_000 + k as u32, ..tagged(if k == 0 { 1000 } else { k }) },
        // 3: the same record published again and again (what the daemon does while nothing changes)
        _ => {
            if k == 0 {
                Rec { as_of_s: 4000, as_of_ns: 1, va_s: 5000, va_ns: 0, bound: 55_000, drift: 1000, reserved: 0, status: 1 }
            } else {
                Rec { as_of_s: 5000, as_of_ns: 123_456_789, va_s: 6000, va_ns: 0, bound: 77_000_001, drift: 1000, reserved: 0, status: 2 }
            }
        }
    }
}

pub fn valid_file(gen: u16, rec: &Rec) -> Vec<u8> {
    let mut b = Vec::with_capacity(SEG);
    b.extend_from_slice(&0x414D5A4Eu32.to_ne_bytes());
    b.extend_from_slice(&0x43420200u32.to_ne_bytes());
    b.extend_from_slice(&(SEG as u32).to_ne_bytes());
    b.extend_from_slice(&1u16.to_ne_bytes());
    b.extend_from_slice(&gen.to_ne_bytes());
    let ceb = rec.to_ceb();
    // SAFETY: repr(C) plain data
    let rb = unsafe { std::slice::from_raw_parts(&ceb as *const ClockErrorBound as *const u8, REC_SIZE) };
    let mut rb = rb.to_vec();
    mask_padding(HDR, &mut rb);
    b.extend_from_slice(&rb);
    b
}

pub fn thread_dir(base: &Path) -> PathBuf {
    let d = base.join(format!("t{:?}", std::thread::current().id()).replace(['(', ')'], ""));
    let _ = std::fs::create_dir_all(&d);
    d
}

/// ShmWriter::new leaves the descriptor it maps from open for the life of the process (harmless for
/// a daemon that creates one writer); a harness that creates millions of writers has to close them.
pub fn close_leaked_fds(path: &Path) {
    let want = path.to_string_lossy().to_string();
    let mut victims = vec![];
    if let Ok(rd) = std::fs::read_dir("/proc/self/fd") {
        for e in rd.flatten() {
            if let Ok(t) = std::fs::read_link(e.path()) {
                let t = t.to_string_lossy().to_string();
                if t == want || t == format!("{want} (deleted)") {
                    if let Ok(fd) = e.file_name().to_string_lossy().parse::<i32>() {
                        victims.push(fd);
                    }
                }
            }
        }
    }
    for fd in victims {
        // SAFETY: the descriptor refers to this thread's scratch segment and nothing uses it any more
        unsafe { libc::close(fd) };
    }
}

/// Run the real writer through the scenario and record its trace.
pub fn record_trace(sc: &Scenario, dir: &Path) -> Result<Trace, String> {
    thread_local! { static SINCE_SCAN: std::cell::Cell<u32> = const { std::cell::Cell::new(0) }; }
    let r = record_trace_inner(sc, dir);
    let n = SINCE_SCAN.with(|c| {
        c.set(c.get() + sc.incs.len() as u32);
        c.get()
    });
    if n >= fd_scan_threshold() {
        SINCE_SCAN.with(|c| c.set(0));
        close_leaked_fds(&dir.join("seg"));
    }
    r
}

fn fd_scan_threshold() -> u32 {
    static T: std::sync::OnceLock<u32> = std::sync::OnceLock::new();
    *T.get_or_init(|| {
        let mut rl = libc::rlimit { rlim_cur: 1024, rlim_max: 1024 };
        // SAFETY: plain system call with a valid struct
        unsafe { libc::getrlimit(libc::RLIMIT_NOFILE, &mut rl) };
        let per_thread = (rl.rlim_cur.saturating_sub(256) as usize / (crate::common::par::threads() * 3)).clamp(8, 4000);
        per_thread as u32
    })
}

/// Raise the soft limit on open files to the hard limit (see `close_leaked_fds`).
pub fn raise_fd_limit() {
    let mut rl = libc::rlimit { rlim_cur: 0, rlim_max: 0 };
    // SAFETY: plain system calls with a valid struct
    unsafe {
        if libc::getrlimit(libc::RLIMIT_NOFILE, &mut rl) == 0 {
            rl.rlim_cur = rl.rlim_max.min(1 << 20);
            libc::setrlimit(libc::RLIMIT_NOFILE, &rl);
        }
    }
}

fn record_trace_inner(sc: &Scenario, dir: &Path) -> Result<Trace, String> {
    let path = dir.join("seg");
    let _ = std::fs::remove_file(&path);
    match &sc.init {
        Init::Absent => {}
        Init::Valid(g) => std::fs::write(&path, valid_file(*g, &record_for(sc.family, 0))).map_err(|e| e.to_string())?,
        Init::Bytes(b) => std::fs::write(&path, b).map_err(|e| e.to_string())?,
    }
    let chunks = chunking(sc.chunks);
    with(|e| {
        *e = Engine::new();
        e.path = path.clone();
        e.trace.chunks = chunks.clone();
        e.trace.mem = Mem::new(LOC_DATA + chunks.len());
        e.trace.init_snap = std::fs::read(&path).ok();
        e.trace.file_times = sc.file_times;
        e.role = Role::Writer;
        e.absorb_file(0);
    });
    let mut next_k = 1i64;
    for (inc, (writes, crash)) in sc.incs.iter().enumerate() {
        stamp_file(&path, sc.file_times);
        let begin = with(|e| {
            e.cur_inc = inc;
            e.cur_span = None;
            e.wmap = None;
            let begin = e.trace.len();
            e.crash_at = crash.map(|c| begin + c);
            let usable_before = e.trace.snap_at(begin).map(|s| reference_valid(s)).unwrap_or(false);
            e.trace.incs.push(Incarnation { begin, end: begin, crashed: false, new_ok: false, wiped: false, usable_before, ino_before: file_id(&path), ino_after_new: None, ino_after_exit: None });
            // a new process starts fully synchronised with memory
            let full = e.trace.mem.full_view_at(begin);
            e.wtv = TView::new(full);
            begin
        });
        let _ = begin;
        let k0 = next_k;
        let r = std::panic::catch_unwind(std::panic::AssertUnwindSafe(|| -> Result<(), String> {
            let mut w = ShmWriter::new(&path).map_err(|e| format!("ShmWriter::new failed: {e}"))?;
            with(|e| {
                let i = e.trace.incs.last_mut().unwrap();
                i.new_ok = true;
                i.ino_after_new = file_id(&path);
            });
            for j in 0..*writes {
                let k = k0 + j as i64;
                let rec = record_for(sc.family, k);
                with(|e| {
                    let begin = e.trace.len();
                    let gen_entry = e.trace.gen_at(begin).unwrap_or(0);
                    e.trace.spans.push(WriteSpan { k, inc, begin, end: None, gen_entry, gen_stores: vec![], rec });
                    e.cur_span = Some(e.trace.spans.len() - 1);
                });
                w.write(&rec.to_ceb());
                with(|e| {
                    let end = e.trace.len();
                    let s = e.cur_span.take().unwrap();
                    e.trace.spans[s].end = Some(end);
                });
            }
            Ok(())
        }));
        next_k += *writes as i64;
        let crashed = match r {
            Ok(Ok(())) => false,
            Ok(Err(msg)) => return Err(msg),
            Err(p) => {
                if p.downcast_ref::<CrashSentinel>().is_some() {
                    true
                } else {
                    let m = p.downcast_ref::<&str>().map(|s| s.to_string()).or_else(|| p.downcast_ref::<String>().cloned()).unwrap_or_else(|| "panic".into());
                    with(|e| e.role = Role::Off);
                    return Err(format!("writer panicked: {m}"));
                }
            }
        };
        with(|e| {
            let end = e.trace.len();
            let i = e.trace.incs.last_mut().unwrap();
            i.end = end;
            i.crashed = crashed;
            i.ino_after_exit = file_id(&path);
            e.cur_span = None;
        });
        if crash.is_some() && !crashed {
            // the crash position lies beyond what this incarnation does: scenario is redundant
            with(|e| e.role = Role::Off);
            return Err("crash position beyond the incarnation".into());
        }
    }
    let (mut trace, failure) = with(|e| {
        e.role = Role::Off;
        (std::mem::take(&mut e.trace), e.failure.take())
    });
    trace.compute_inflight();
    if let Some(f) = failure {
        return Err(format!("MACHINERY: {f}"));
    }
    Ok(trace)
}

// ---------------------------------------------------------------------------------------------
// Phase B: reader exploration

#[derive(Clone, Debug, PartialEq, Eq, Hash, PartialOrd, Ord)]
pub enum CallResult {
    /// Ok(&record): the reader's cache after the call
    Ok,
    Err(&'static str),
    /// the call was cut while spinning on forced, identical loads (it cannot return anything new)
    CutSpin,
    /// the call exceeded the bound on record copies
    Unbounded,
    Panic(String),
}

#[derive(Clone, Debug, PartialEq, Eq, Hash, PartialOrd, Ord)]
pub struct RState {
    pub gen: u16,
    pub rec: Rec,
    pub cur: View,
    pub acq: View,
    pub sc_p: u32,
}

#[derive(Clone, Debug)]
pub struct Transition {
    pub attach: u32,
    /// choices of the calls leading to the state before, then of this call
    pub path: Vec<Vec<u32>>,
    pub before: RState,
    pub after: RState,
    pub result: CallResult,
    pub returned: Option<Rec>,
    pub stats: CallStats,
}

#[derive(Clone, Debug, Default)]
pub struct ExploreStats {
    pub attach_points: u64,
    pub attach_refused: u64,
    pub states: u64,
    pub transitions: u64,
    pub executions: u64,
    pub choice_points: u64,
    pub max_loads_per_call: u64,
    pub max_data_reads_per_call: u64,
    pub calls_with_retry: u64,
    pub cut_spins: u64,
    pub full_spins: u64,
    pub deviations_max: u32,
    pub outcomes: BTreeMap<String, u64>,
    pub capped: bool,
}

impl ExploreStats {
    pub fn merge(&mut self, o: &ExploreStats) {
        self.attach_points += o.attach_points;
        self.attach_refused += o.attach_refused;
        self.states += o.states;
        self.transitions += o.transitions;
        self.executions += o.executions;
        self.choice_points += o.choice_points;
        self.max_loads_per_call = self.max_loads_per_call.max(o.max_loads_per_call);
        self.max_data_reads_per_call = self.max_data_reads_per_call.max(o.max_data_reads_per_call);
        self.calls_with_retry += o.calls_with_retry;
        self.cut_spins += o.cut_spins;
        self.full_spins += o.full_spins;
        self.deviations_max = self.deviations_max.max(o.deviations_max);
        self.capped |= o.capped;
        for (k, v) in &o.outcomes {
            *self.outcomes.entry(k.clone()).or_insert(0) += v;
        }
    }
}

#[derive(Clone, Debug)]
pub struct ExploreCfg {
    /// reading of the client's monotonic clocks while the reader runs (None: the real clock)
    pub client_mono_ns: Option<i128>,
    pub mode: Mode,
    pub dev_bound: u32,
    /// cut a call after this many consecutive forced identical loads (u64::MAX: never)
    pub cut_after: u64,
    /// bound on record copies per call (C18)
    pub max_data_reads: u64,
    /// trace position at which the writer stops for ever (the trace is cut there)
    pub end: u32,
    /// run spinning calls in full once per distinct signature (C18 evidence)
    pub full_spin_once: bool,
    pub max_states: usize,
    pub deadline_s: f64,
}

pub struct AttachResult {
    pub attach: u32,
    pub file_valid: bool,
    pub opened: Result<(), String>,
}

struct ReaderRun {
    reader: ShmReader,
}

fn file_id(p: &Path) -> Option<(u64, u64)> {
    use std::os::unix::fs::MetadataExt;
    std::fs::metadata(p).ok().map(|m| (m.dev(), m.ino()))
}

fn reset_reader(trace: &Trace, cfg: &ExploreCfg, attach: u32) {
    match cfg.client_mono_ns {
        Some(m) => crate::common::vclock::arm(crate::common::vclock::VClock { real_ns: 1_700_000_000_000_000_000, mono_ns: m, auto_advance_ns: 0, fail_errno: 0, fail_clock: -1 }),
        None => crate::common::vclock::disarm(),
    }
    with(|e| {
        e.role = Role::Reader;
        e.mode = cfg.mode;
        e.end = cfg.end;
        e.dev_bound = cfg.dev_bound;
        e.cut_after = cfg.cut_after;
        e.max_data_reads = cfg.max_data_reads;
        e.rmap = None;
        e.rtv = TView::new(trace.mem.full_view_at(attach));
        e.sc_p = attach;
        e.epoch = 1;
    });
}

fn open_reader(cpath: &CString) -> Result<ReaderRun, ShmError> {
    ShmReader::new(cpath).map(|reader| ReaderRun { reader })
}

fn rstate(r: &ShmReader) -> RState {
    let (gen, ceb) = r.verif_state();
    with(|e| RState { gen, rec: Rec::from_ceb(&ceb), cur: if e.mode == Mode::Ra { e.rtv.cur } else { [0; MAXLOC] }, acq: if e.mode == Mode::Ra { e.rtv.acq } else { [0; MAXLOC] }, sc_p: if e.mode == Mode::Sc { e.sc_p } else { 0 } })
}

fn shm_err_name(e: &ShmError) -> &'static str {
    match e {
        ShmError::SyscallError(_, _) => "syscall",
        ShmError::SegmentNotInitialized => "not_initialized",
        ShmError::SegmentMalformed => "malformed",
        ShmError::CausalityBreach => "causality",
    }
}

/// Marker appended to the choices of a call that was run in full although it spins (see `full_spin_once`):
/// replaying the path must run that call in full again, or the reader is left in another state.
pub const FULL_SPIN_MARK: u32 = u32::MAX;

/// Replay one earlier call of a path (honouring the full-spin marker).
fn replay_call(run: &mut ReaderRun, c: &[u32], normal_cut_after: u64) {
    let full = c.last() == Some(&FULL_SPIN_MARK);
    let choices: Vec<u32> = if full { c[..c.len() - 1].to_vec() } else { c.to_vec() };
    if full {
        with(|e| e.cut_after = u64::MAX);
    }
    let _ = one_call(run, choices);
    if full {
        with(|e| e.cut_after = normal_cut_after);
    }
}

/// One snapshot() call with the given choice prefix. Returns (result, returned record, choices taken).
fn one_call(run: &mut ReaderRun, prefix: Vec<u32>) -> (CallResult, Option<Rec>, Vec<(u32, u32)>, CallStats) {
    with(|e| {
        e.begin_call(prefix);
        e.enter_call();
    });
    let reader = &mut run.reader;
    let r = std::panic::catch_unwind(std::panic::AssertUnwindSafe(|| reader.snapshot().map(Rec::from_ceb).map_err(|e| shm_err_name(&e))));
    let (taken, stats) = with(|e| (e.taken.clone(), e.call.clone()));
    match r {
        Ok(Ok(rec)) => (CallResult::Ok, Some(rec), taken, stats),
        Ok(Err(k)) => (CallResult::Err(k), None, taken, stats),
        Err(p) => {
            if let Some(c) = p.downcast_ref::<CutSentinel>() {
                (if c.0 == "spin" { CallResult::CutSpin } else { CallResult::Unbounded }, None, taken, stats)
            } else {
                let m = p.downcast_ref::<&str>().map(|s| s.to_string()).or_else(|| p.downcast_ref::<String>().cloned()).unwrap_or_else(|| "panic".into());
                (CallResult::Panic(m), None, taken, stats)
            }
        }
    }
}

/// Explore one reader attached at `attach` against `trace` (cut at cfg.end). `on_transition` is
/// called for every (state, call) pair explored; it returns false to stop the search.
pub fn explore_reader(
    trace: &Trace,
    cfg: &ExploreCfg,
    attach: u32,
    dir: &Path,
    stats: &mut ExploreStats,
    on_attach: &mut dyn FnMut(&AttachResult),
    on_transition: &mut dyn FnMut(&Transition) -> bool,
) -> Result<(), String> {
    // materialise the file the reader opens
    let rpath = dir.join("rseg");
    let cpath = CString::new(rpath.to_str().unwrap()).unwrap();
    let _ = std::fs::remove_file(&rpath);
    let snap = trace.snap_at(attach).cloned();
    if let Some(s) = &snap {
        std::fs::write(&rpath, s).map_err(|e| e.to_string())?;
        stamp_file(&rpath, trace.file_times);
    }
    let file_valid = snap.as_ref().map(|s| reference_valid(s)).unwrap_or(false);
    let rfile = file_id(&rpath);
    with(|e| {
        e.trace = trace.clone();
        e.failure = None;
        e.rfile = rfile;
    });
    stats.attach_points += 1;
    // The attach itself (ShmReader::new) is explored like a call: it normally performs no intercepted
    // load, but an implementation whose constructor reads the segment has choices there too. A path is
    // [choices during new(), choices of call 1, choices of call 2, ...].
    let mut seen: BTreeSet<RState> = BTreeSet::new();
    let mut frontier: VecDeque<(Option<RState>, Vec<Vec<u32>>)> = VecDeque::new();
    let mut spin_sigs: BTreeSet<(Vec<u16>, View)> = BTreeSet::new();
    frontier.push_back((None, vec![]));
    let mut any_open = false;
    let mut stop = false;
    while let Some((state, path)) = frontier.pop_front() {
        if stop {
            break;
        }
        // depth-first over the choice tree of one more step (the attach, or one more call) from `state`
        let mut prefix: Vec<u32> = vec![];
        loop {
            if crate::common::vclock::raw_now_s() > cfg.deadline_s || seen.len() > cfg.max_states {
                stats.capped = true;
                stop = true;
                break;
            }
            reset_reader(trace, cfg, attach);
            let taken: Vec<(u32, u32)>;
            if path.is_empty() {
                with(|e| e.begin_call(prefix.clone()));
                let opened = std::panic::catch_unwind(std::panic::AssertUnwindSafe(|| open_reader(&cpath)));
                taken = with(|e| e.taken.clone());
                stats.executions += 1;
                if let Some(f) = with(|e| e.failure.take()) {
                    with(|e| e.role = Role::Off);
                    return Err(format!("MACHINERY: {f}"));
                }
                match opened {
                    Ok(Ok(run)) => {
                        any_open = true;
                        on_attach(&AttachResult { attach, file_valid, opened: Ok(()) });
                        let s0 = rstate(&run.reader);
                        drop(run);
                        if seen.insert(s0.clone()) {
                            stats.states += 1;
                            frontier.push_back((Some(s0), vec![taken.iter().map(|t| t.0).collect()]));
                        }
                    }
                    Ok(Err(e)) => on_attach(&AttachResult { attach, file_valid, opened: Err(shm_err_name(&e).to_string()) }),
                    Err(p) => {
                        let m = if p.downcast_ref::<CutSentinel>().is_some() { "did not terminate".to_string() } else { p.downcast_ref::<&str>().map(|s| s.to_string()).or_else(|| p.downcast_ref::<String>().cloned()).unwrap_or_else(|| "panic".into()) };
                        on_attach(&AttachResult { attach, file_valid, opened: Err(format!("panic: {m}")) });
                    }
                }
            } else {
                let state = state.as_ref().unwrap();
                with(|e| e.begin_call(path[0].clone()));
                let mut run = match open_reader(&cpath) {
                    Ok(r) => r,
                    Err(_) => return Err("reader attach is not deterministic".into()),
                };
                for c in &path[1..] {
                    replay_call(&mut run, c, cfg.cut_after);
                }
                let before = rstate(&run.reader);
                if before != *state {
                    return Err(format!("replay divergence: state after replaying {} calls differs", path.len() - 1));
                }
                let (mut result, mut returned, mut tk, mut cstats) = one_call(&mut run, prefix.clone());
                let mut ran_in_full = false;
                stats.executions += 1;
                if result == CallResult::CutSpin {
                    stats.cut_spins += 1;
                    let sig = (cstats.gens_seen.clone(), with(|e| e.rtv.cur));
                    if cfg.full_spin_once && spin_sigs.insert(sig) {
                        // run this spinning call in full, once per signature: it must terminate
                        reset_reader(trace, cfg, attach);
                        with(|e| e.cut_after = u64::MAX);
                        with(|e| e.begin_call(path[0].clone()));
                        let mut run2 = open_reader(&cpath).map_err(|_| "reader attach is not deterministic".to_string())?;
                        for c in &path[1..] {
                            replay_call(&mut run2, c, u64::MAX);
                        }
                        with(|e| e.cut_after = u64::MAX);
                        let full = one_call(&mut run2, prefix.clone());
                        with(|e| e.cut_after = cfg.cut_after);
                        ran_in_full = true;
                        stats.full_spins += 1;
                        result = full.0;
                        returned = full.1;
                        tk = full.2;
                        cstats = full.3;
                        run = run2;
                    }
                }
                let after = rstate(&run.reader);
                drop(run);
                if let Some(f) = with(|e| e.failure.take()) {
                    with(|e| e.role = Role::Off);
                    return Err(format!("MACHINERY: {f}"));
                }
                stats.transitions += 1;
                stats.choice_points += tk.len() as u64;
                stats.max_loads_per_call = stats.max_loads_per_call.max(cstats.loads);
                stats.max_data_reads_per_call = stats.max_data_reads_per_call.max(cstats.data_reads);
                if cstats.data_reads > 1 {
                    stats.calls_with_retry += 1;
                }
                let devs = tk.iter().filter(|t| t.0 > 0).count() as u32;
                stats.deviations_max = stats.deviations_max.max(devs);
                let mut full_path = path.clone();
                full_path.push(tk.iter().map(|t| t.0).chain(if ran_in_full { Some(FULL_SPIN_MARK) } else { None }).collect());
                let tr = Transition { attach, path: full_path.clone(), before: state.clone(), after: after.clone(), result: result.clone(), returned, stats: cstats };
                if !on_transition(&tr) {
                    stop = true;
                }
                if matches!(result, CallResult::Ok | CallResult::Err(_)) && seen.insert(after.clone()) {
                    stats.states += 1;
                    frontier.push_back((Some(after), full_path));
                }
                taken = tk;
            }
            // odometer: deepest choice point with an untried alternative
            let mut i = taken.len();
            let mut next = None;
            while i > 0 {
                i -= 1;
                if taken[i].0 + 1 < taken[i].1 {
                    let mut p: Vec<u32> = taken[..i].iter().map(|t| t.0).collect();
                    p.push(taken[i].0 + 1);
                    next = Some(p);
                    break;
                }
            }
            match next {
                Some(p) => prefix = p,
                None => break,
            }
            if stop {
                break;
            }
        }
    }
    if !any_open {
        stats.attach_refused += 1;
    }
    with(|e| e.role = Role::Off);
    crate::common::vclock::disarm();
    Ok(())
}

/// Re-execute one recorded path (for replay files and for confirming a violation twice).
pub fn replay_path(trace: &Trace, cfg: &ExploreCfg, attach: u32, path: &[Vec<u32>], dir: &Path) -> Result<Vec<(CallResult, Option<Rec>, CallStats)>, String> {
    let rpath = dir.join("rseg-replay");
    let cpath = CString::new(rpath.to_str().unwrap()).unwrap();
    let _ = std::fs::remove_file(&rpath);
    if let Some(s) = trace.snap_at(attach) {
        std::fs::write(&rpath, s).map_err(|e| e.to_string())?;
        stamp_file(&rpath, trace.file_times);
    }
    let rfile = file_id(&rpath);
    with(|e| {
        e.trace = trace.clone();
        e.failure = None;
        e.rfile = rfile;
    });
    reset_reader(trace, cfg, attach);
    with(|e| e.begin_call(path.first().cloned().unwrap_or_default()));
    let mut run = open_reader(&cpath).map_err(|e| format!("attach refused: {}", shm_err_name(&e)))?;
    let mut out = vec![];
    for c in path.iter().skip(1) {
        let choices: Vec<u32> = c.iter().cloned().filter(|x| *x != FULL_SPIN_MARK).collect();
        let (r, rec, _, st) = one_call(&mut run, choices);
        out.push((r, rec, st));
    }
    drop(run);
    crate::common::vclock::disarm();
    let f = with(|e| {
        e.role = Role::Off;
        e.failure.take()
    });
    match f {
        Some(f) => Err(format!("MACHINERY: {f}")),
        None => Ok(out),
    }
}
