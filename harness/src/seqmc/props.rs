//! Property drivers for the segment-protocol explorer: C02, C03, C04, C11, C18.

use super::engine::*;
use super::litmus;
use crate::common::par;
use crate::common::rec::Rec;
use crate::common::report::{cov, finish, machinery_failure, Ctx, Outcome, Tier, Violation};
use crate::common::vclock::raw_now_s;
use serde_json::{json, Value};
use std::collections::BTreeMap;

const SPIN_CAP: u64 = 5_000_000;

fn mode_name(m: Mode) -> &'static str {
    match m {
        Mode::Ra => "RA",
        Mode::Sc => "SC",
    }
}

/// Enumerate every crash position of the first incarnation of `base` (whose incs[0].1 is None).
fn with_crashes(base: &Scenario, dir: &std::path::Path) -> Vec<Scenario> {
    let mut first = base.clone();
    first.incs.truncate(1);
    let t = match record_trace(&first, dir) {
        Ok(t) => t,
        Err(e) => machinery_failure(&format!("cannot record base trace {:?}: {e}", first)),
    };
    let n = t.len();
    let mut out = vec![base.clone()];
    for c in 1..n {
        // stopping right after the last event of a write() call is a clean exit with fewer writes
        if t.spans.iter().any(|sp| sp.end == Some(c)) {
            continue;
        }
        let mut s = base.clone();
        s.incs[0].1 = Some(c);
        out.push(s);
    }
    out
}

pub struct Work {
    pub sc: Scenario,
    pub trace: Trace,
}

fn single_incarnation(tier: Tier, chunks: usize, ks: &[usize]) -> Vec<Scenario> {
    let inits = match tier {
        Tier::Quick => vec![Init::Absent, Init::Valid(2), Init::Valid(65532), Init::Valid(65534), Init::Valid(3), Init::Valid(65535)],
        Tier::Thorough => vec![Init::Absent, Init::Valid(2), Init::Valid(4), Init::Valid(65530), Init::Valid(65532), Init::Valid(65534), Init::Valid(3), Init::Valid(65533), Init::Valid(65535)],
    };
    let mut v = vec![];
    for k in ks {
        for i in &inits {
            v.push(Scenario { init: i.clone(), incs: vec![(*k, None)], chunks, family: 0, file_times: 0 });
        }
    }
    v
}

fn multi_incarnation(tier: Tier, chunks: usize, dir: &std::path::Path) -> Vec<Scenario> {
    let inits = match tier {
        Tier::Quick => vec![Init::Absent, Init::Valid(65534)],
        Tier::Thorough => vec![Init::Absent, Init::Valid(2), Init::Valid(65534), Init::Valid(65535)],
    };
    let (k1s, k2s): (Vec<usize>, Vec<usize>) = match tier {
        Tier::Quick => (vec![1, 2], vec![1]),
        Tier::Thorough => (vec![1, 2], vec![1, 2]),
    };
    let mut v = vec![];
    for i in &inits {
        for k1 in &k1s {
            for k2 in &k2s {
                let base = Scenario { init: i.clone(), incs: vec![(*k1, None), (*k2, None)], chunks, family: 0, file_times: 0 };
                v.extend(with_crashes(&base, dir));
            }
        }
    }
    if tier == Tier::Thorough {
        // three incarnations: crash in the first and in the second
        for i in [Init::Absent, Init::Valid(65534)] {
            let base = Scenario { init: i.clone(), incs: vec![(1, None), (1, None), (1, None)], chunks, family: 0, file_times: 0 };
            for s1 in with_crashes(&base, dir) {
                // crash positions of the second incarnation: probe its length by recording
                let mut probe = s1.clone();
                probe.incs.truncate(2);
                if let Ok(t) = record_trace(&probe, dir) {
                    let len2 = t.incs[1].end - t.incs[1].begin;
                    v.push(s1.clone());
                    for c in 1..len2 {
                        let mut s = s1.clone();
                        s.incs[1].1 = Some(c);
                        v.push(s);
                    }
                }
            }
        }
    }
    v
}

/// Clean restarts (no crash) over records of family 4, from nothing: 1+1 and 2+1 publications (1+1: if the
/// successor started the generation afresh it would be back at the predecessor's value after its first publication).
fn restarts_with_rejected_records() -> Vec<Scenario> {
    let mut v = vec![];
    for init in [Init::Absent] {
        for (a, b) in [(1usize, 1usize), (2, 1)] {
            v.push(Scenario { init: init.clone(), incs: vec![(a, None), (b, None)], chunks: 2, family: 4, file_times: 0 });
        }
    }
    v
}

fn record_all(scs: Vec<Scenario>, base: &std::path::Path) -> Vec<Work> {
    let res = par::map(scs.len(), |i| {
        let dir = thread_dir(base);
        record_trace(&scs[i], &dir).map(|t| Work { sc: scs[i].clone(), trace: t })
    });
    let mut out = vec![];
    for (i, r) in res.into_iter().enumerate() {
        match r {
            Ok(w) => out.push(w),
            Err(e) if e.starts_with("MACHINERY") => machinery_failure(&format!("{e} (scenario {})", scs[i].json())),
            Err(e) if e.contains("beyond the incarnation") => {}
            Err(e) => machinery_failure(&format!("cannot record trace: {e} (scenario {})", scs[i].json())),
        }
    }
    out
}

/// Lowest publication index whose record has this content (records may repeat).
fn idx_of(published: &[(i64, Rec)], r: &Rec) -> Option<i64> {
    published.iter().filter(|(_, p)| p == r).map(|(k, _)| *k).min()
}
/// Highest publication index whose record has this content.
fn idx_of_max(published: &[(i64, Rec)], r: &Rec) -> Option<i64> {
    published.iter().filter(|(_, p)| p == r).map(|(k, _)| *k).max()
}

fn words(r: &Rec) -> Vec<i64> {
    vec![r.as_of_s, r.as_of_ns, r.va_s, r.va_ns, r.bound, ((r.reserved as i64) << 32) | r.drift as i64, r.status as i64]
}

struct Agg {
    stats: ExploreStats,
    /// best (fewest deviations) violation per signature
    best: BTreeMap<String, (u32, Violation)>,
    counts: BTreeMap<String, u64>,
    samples: Vec<Value>,
    attach_ok: u64,
}

fn stats_json(s: &ExploreStats) -> Value {
    json!({"attach_points": s.attach_points, "attach_refused": s.attach_refused, "states": s.states, "transitions": s.transitions, "executions": s.executions,
        "choice_points": s.choice_points, "max_loads_per_call": s.max_loads_per_call, "max_data_reads_per_call": s.max_data_reads_per_call,
        "calls_with_retry": s.calls_with_retry, "cut_spins": s.cut_spins, "full_spins": s.full_spins, "deviations_max": s.deviations_max,
        "outcomes": s.outcomes, "capped": s.capped})
}

fn stats_from(v: &Value) -> ExploreStats {
    let u = |k: &str| v[k].as_u64().unwrap_or(0);
    ExploreStats {
        attach_points: u("attach_points"), attach_refused: u("attach_refused"), states: u("states"), transitions: u("transitions"), executions: u("executions"),
        choice_points: u("choice_points"), max_loads_per_call: u("max_loads_per_call"), max_data_reads_per_call: u("max_data_reads_per_call"),
        calls_with_retry: u("calls_with_retry"), cut_spins: u("cut_spins"), full_spins: u("full_spins"), deviations_max: u("deviations_max") as u32,
        outcomes: v["outcomes"].as_object().map(|o| o.iter().map(|(k, x)| (k.clone(), x.as_u64().unwrap_or(0))).collect()).unwrap_or_default(),
        capped: v["capped"].as_bool().unwrap_or(false),
    }
}

impl Agg {
    fn to_json(&self) -> Value {
        json!({"stats": stats_json(&self.stats), "counts": self.counts, "samples": self.samples, "attach_ok": self.attach_ok,
            "best": self.best.iter().map(|(k, (d, v))| json!({"sig": k, "devs": d, "text": v.text, "replay": v.replay})).collect::<Vec<_>>()})
    }
    fn from_json(v: &Value) -> Agg {
        let mut a = Agg::new();
        a.stats = stats_from(&v["stats"]);
        a.counts = v["counts"].as_object().map(|o| o.iter().map(|(k, x)| (k.clone(), x.as_u64().unwrap_or(0))).collect()).unwrap_or_default();
        a.samples = v["samples"].as_array().cloned().unwrap_or_default();
        a.attach_ok = v["attach_ok"].as_u64().unwrap_or(0);
        for b in v["best"].as_array().cloned().unwrap_or_default() {
            let sig = b["sig"].as_str().unwrap_or("").to_string();
            a.best.insert(sig.clone(), (b["devs"].as_u64().unwrap_or(0) as u32, Violation { signature: sig, text: b["text"].as_str().unwrap_or("").to_string(), replay: b["replay"].clone() }));
        }
        a
    }
    fn new() -> Agg {
        Agg { stats: ExploreStats::default(), best: BTreeMap::new(), counts: BTreeMap::new(), samples: vec![], attach_ok: 0 }
    }
    fn add(&mut self, sig: String, devs: u32, text: String, replay: Value) {
        *self.counts.entry(sig.clone()).or_insert(0) += 1;
        let better = self.best.get(&sig).map(|(d, _)| devs < *d).unwrap_or(true);
        if better {
            self.best.insert(sig.clone(), (devs, Violation { signature: sig, text, replay }));
        }
    }
    fn merge(&mut self, o: Agg) {
        self.stats.merge(&o.stats);
        self.attach_ok += o.attach_ok;
        for (k, v) in o.counts {
            *self.counts.entry(k).or_insert(0) += v;
        }
        for (k, (d, v)) in o.best {
            let better = self.best.get(&k).map(|(d0, _)| d < *d0).unwrap_or(true);
            if better {
                self.best.insert(k, (d, v));
            }
        }
        if self.samples.len() < 8 {
            self.samples.extend(o.samples);
        }
    }
}

fn replay_doc(sc: &Scenario, cfg: &ExploreCfg, tr: &Transition) -> Value {
    json!({
        "engine": "seqmc", "scenario": sc.json(), "mode": mode_name(cfg.mode), "writer_stops_at": cfg.end, "deviation_bound": cfg.dev_bound, "client_monotonic_clock_ns": cfg.client_mono_ns.map(|x| x.to_string()),
        "attach_at": tr.attach, "calls": tr.path,
        "observed": {"result": format!("{:?}", tr.result), "returned_words": tr.returned.as_ref().map(words), "cache_before_words": words(&tr.before.rec), "cached_generation_before": tr.before.gen,
                     "generations_seen": tr.stats.gens_seen, "loads": tr.stats.loads, "record_copies": tr.stats.data_reads},
        "legend": "calls[0] = choices taken inside ShmReader::new (normally none); calls[i>0] = choice taken at each choice point of the i-th snapshot() call; RA: choice c reads the c-th newest message the view allows (0 = latest, >0 = a stale read); SC: choice c advances the writer to the c-th next position (0 = not at all)"
    })
}

#[derive(Clone, Copy, PartialEq, Eq)]
enum Prop {
    C02,
    C03,
    C04,
    C18,
}

/// Oracles on one transition. `multi` marks crash/restart traces (C04).
fn judge(prop: Prop, w: &Work, cfg: &ExploreCfg, tr: &Transition, agg: &mut Agg) {
    let published = w.trace.published_at(cfg.end);
    // path = [choices during ShmReader::new, call 1, call 2, ...]: fewest calls first, then fewest stale reads
    let devs = tr.path.last().map(|c| c.iter().filter(|x| **x > 0 && **x != FULL_SPIN_MARK).count() as u32).unwrap_or(0) + (tr.path.len() as u32).saturating_sub(2) * 100;
    let m = mode_name(cfg.mode);
    let key = match (&tr.result, &tr.returned) {
        (CallResult::Ok, Some(r)) => match idx_of(&published, r) {
            Some(k) => format!("ok:pub{}", if k < 0 { "-init".to_string() } else { k.to_string() }),
            None => "ok:BLEND".into(),
        },
        (r, _) => format!("{r:?}"),
    };
    *agg.stats.outcomes.entry(key).or_insert(0) += 1;
    let pfx = match prop {
        Prop::C02 => "C02",
        Prop::C03 => "C03",
        Prop::C04 => "C04",
        Prop::C18 => "C18",
    };
    if let CallResult::Panic(msg) = &tr.result {
        agg.add(format!("{pfx}:reader-panic"), devs, format!("snapshot() panicked: {msg}"), replay_doc(&w.sc, cfg, tr));
        return;
    }
    let ret_idx = tr.returned.as_ref().map(|r| idx_of(&published, r));
    if matches!(prop, Prop::C02 | Prop::C04) {
        if let (CallResult::Ok, Some(r)) = (&tr.result, &tr.returned) {
            if ret_idx == Some(None) {
                agg.add(
                    format!("{pfx}:mixture:{m}"),
                    devs,
                    format!("snapshot() returned words {:?}: not the empty record and not a record that was published in full ({} stale reads in the call)", words(r), devs % 100),
                    replay_doc(&w.sc, cfg, tr),
                );
            }
            if *r != tr.after.rec {
                agg.add(format!("{pfx}:returned-differs-from-cache"), devs, "the record returned differs from the reader's cache".into(), replay_doc(&w.sc, cfg, tr));
            }
        }
    }
    if matches!(prop, Prop::C03 | Prop::C04) {
        if let (CallResult::Ok, Some(Some(_))) = (&tr.result, ret_idx) {
            // with repeated record contents: the newest publication the result can stand for must not be
            // older than the oldest one the previous result can stand for
            let after = tr.returned.as_ref().and_then(|r| idx_of_max(&published, r)).unwrap_or(-1);
            if let Some(before) = idx_of(&published, &tr.before.rec) {
                if after < before {
                    agg.add(format!("{pfx}:goes-back:{m}"), devs, format!("a call returned publication {after} after an earlier call had returned publication {before}"), replay_doc(&w.sc, cfg, tr));
                }
            }
        }
        // freshness: if some idle writer position explains every load of the call, the call must
        // return the publication that was the latest one there
        if cfg.mode == Mode::Sc && !tr.stats.reads_overflow {
            if let Some(q) = w.trace.idle_point_explaining(&tr.stats.reads, tr.stats.entry_pos, cfg.end) {
                let latest = w.trace.latest_completed_at(q);
                let which = if w.sc.incs.len() > 1 && prop == Prop::C04 { "stale-after-restart" } else { "stale-while-idle" };
                let latest_rec = published.iter().find(|(k, _)| *k == latest).map(|(_, r)| *r);
                match (&tr.result, ret_idx) {
                    (CallResult::Ok, Some(Some(after))) if after == latest || tr.returned == latest_rec => {}
                    (CallResult::Ok, Some(Some(after))) => agg.add(format!("{pfx}:{which}"), devs, format!("no update in flight during the call (every load saw the state at writer position {q}), the latest completed publication there is {latest}, the call returned {after}"), replay_doc(&w.sc, cfg, tr)),
                    (CallResult::Ok, _) => {}
                    (r, _) => agg.add(format!("{pfx}:error-while-idle"), devs, format!("no update in flight during the call (writer position {q}), yet it returned {r:?}"), replay_doc(&w.sc, cfg, tr)),
                }
            }
        }
    }
    if prop == Prop::C18 {
        match &tr.result {
            CallResult::Unbounded => agg.add(format!("C18:unbounded:{m}"), devs, format!("snapshot() did not return after {} record copies / {} loads", tr.stats.data_reads, tr.stats.loads), replay_doc(&w.sc, cfg, tr)),
            CallResult::CutSpin => {}
            _ => {
                let in_flight_first = tr.stats.first_version == Some(0) || matches!(tr.stats.first_gen, Some(g) if g == 0 || g % 2 == 1);
                if in_flight_first && (tr.stats.loads > 64 || !matches!(tr.result, CallResult::Ok)) {
                    agg.add(format!("C18:waits-on-in-flight-update:{m}"), devs, format!("the call found an update in flight (version {:?}, generation {:?}) and then performed {} loads and returned {:?} instead of answering from its previous snapshot", tr.stats.first_version, tr.stats.first_gen, tr.stats.loads, tr.result), replay_doc(&w.sc, cfg, tr));
                }
            }
        }
    }
}

/// The calling (forked worker) process may from now on run only on the CPU it is running on.
fn confine_to_one_cpu() {
    // SAFETY: plain system calls on the calling process with a properly initialised set
    unsafe {
        let cpu = libc::sched_getcpu();
        if cpu >= 0 {
            let mut set: libc::cpu_set_t = std::mem::zeroed();
            libc::CPU_SET(cpu as usize, &mut set);
            libc::sched_setaffinity(0, std::mem::size_of::<libc::cpu_set_t>(), &set);
        }
    }
}

struct Plan {
    works: Vec<Work>,
    mode: Mode,
    dev_bound: u32,
    /// explore every "writer stops for ever" prefix as well
    stop_points: bool,
    /// run calls that spin on a dead writer in full (once per signature) and continue from the state they leave
    full_spin: bool,
    /// the client's monotonic clock reads 0.4 s after the as-of of the first record a reader can hold (so that the
    /// record it caches is "fresh"); otherwise the real clock, for which every record of the scenarios is ancient
    fresh_clock: bool,
    /// the exploring process confines itself to one CPU first (sched_setaffinity)
    one_cpu: bool,
    label: &'static str,
}

fn run_plan(ctx: &Ctx, prop: Prop, plan: &Plan, deadline: f64, agg: &mut Agg) {
    if agg.counts.values().sum::<u64>() >= 200 {
        // (see below) earlier plans have settled the verdict
        agg.stats.capped = true;
        return;
    }
    // work items: (work index, end, attach)
    let mut items: Vec<(usize, u32, u32)> = vec![];
    for (wi, w) in plan.works.iter().enumerate() {
        let n = w.trace.len();
        let ends: Vec<u32> = if plan.stop_points { (0..=n).collect() } else { vec![n] };
        for end in ends {
            for attach in 0..=end {
                // a reader can only attach to a valid, complete file
                let ok = w.trace.snap_at(attach).map(|s| s.len() >= SEG).unwrap_or(false);
                if ok || !plan.stop_points {
                    items.push((wi, end, attach));
                }
            }
        }
    }
    let base = ctx.scratch();
    let parts = par::fork_reduce(
        items.len(),
        |c| (Agg::new(), { let d = base.join(format!("p{c}")); let _ = std::fs::create_dir_all(&d); d }),
        |acc: &mut (Agg, std::path::PathBuf), i| {
        // the verdict is settled once violations have been seen; a tree on which most calls spin to the retry
        // budget would otherwise cost ten minutes and more. Never triggers on a tree where the property holds.
        if acc.0.counts.values().sum::<u64>() >= 25 {
            acc.0.stats.capped = true;
            return;
        }
        if plan.one_cpu {
            confine_to_one_cpu();
        }
        let (wi, end, attach) = items[i];
        let w = &plan.works[wi];
        let dir = acc.1.clone();
        let mut local = Agg::new();
        let fresh: Option<i128> = if plan.fresh_clock {
            Some(match w.sc.init { Init::Absent => 1_400_000_001, _ => 1_000_400_001_000 })
        } else {
            None
        };
        let cfg = ExploreCfg {
            client_mono_ns: fresh,
            mode: plan.mode,
            dev_bound: plan.dev_bound,
            cut_after: if plan.full_spin { 3000 } else { 600 },
            max_data_reads: SPIN_CAP,
            end,
            full_spin_once: plan.full_spin,
            max_states: 200_000,
            deadline_s: deadline,
        };
        let mut stats = ExploreStats::default();
        let mut attach_viol: Vec<(String, String)> = vec![];
        let mut attach_ok = 0u64;
        let mut first_tr: Option<Transition> = None;
        let r = explore_reader(
            &w.trace,
            &cfg,
            attach,
            &dir,
            &mut stats,
            &mut |a: &AttachResult| {
                if a.opened.is_ok() {
                    attach_ok += 1;
                }
                if prop == Prop::C04 && a.opened.is_ok() != a.file_valid {
                    attach_viol.push((
                        if a.file_valid { "C04:valid-segment-refused".into() } else { "C04:invalid-segment-accepted".into() },
                        format!("at writer position {} the file is {} per the documented header rules but ShmReader::new returned {:?}", a.attach, if a.file_valid { "valid" } else { "not valid" }, a.opened),
                    ));
                }
            },
            &mut |tr: &Transition| {
                judge(prop, w, &cfg, tr, &mut local);
                if first_tr.is_none() || (tr.stats.data_reads > 1 && first_tr.as_ref().map(|f| f.stats.data_reads <= 1).unwrap_or(false)) {
                    first_tr = Some(tr.clone());
                }
                // (as above) enough violating calls from this attach point: leave it
                local.counts.values().sum::<u64>() < 6
            },
        );
        match r {
            Ok(()) => {}
            Err(e) => machinery_failure(&format!("{e} (scenario {}, attach {attach}, end {end})", w.sc.json())),
        }
        if let Some(tr) = &first_tr {
            if i % 97 == 0 {
                local.samples.push(json!({"plan": plan.label, "scenario": w.sc.json(), "attach_at": attach, "writer_stops_at": end, "calls": tr.path, "result": format!("{:?}", tr.result), "returned_words": tr.returned.as_ref().map(words)}));
            }
        }
        for (sig, text) in attach_viol {
            local.add(sig, 0, text, json!({"engine": "seqmc", "scenario": w.sc.json(), "attach_at": attach, "mode": mode_name(plan.mode), "writer_stops_at": end, "calls": []}));
        }
        local.attach_ok = attach_ok;
        local.stats.merge(&stats);
        if plan.one_cpu {
            for (_, v) in local.best.values_mut() {
                v.replay["environment"] = json!("one-cpu");
            }
        }
        acc.0.merge(local);
        },
        |acc| acc.0.to_json(),
    );
    for p in parts {
        agg.merge(Agg::from_json(&p));
    }
}

/// The crash/restart plan once more, with the daemon (trace recording: `ShmWriter::new`, its probe of the
/// existing segment, the publications) and the clients (every attach and call of the exploration) running
/// as an unprivileged user with no capabilities and no memory-lock allowance (common/privdrop.rs). Nothing
/// in the property depends on privileges, so the oracles are unchanged.
fn least_privilege_phase(ctx: &Ctx, deadline: f64, agg: &mut Agg) -> Value {
    use crate::common::privdrop;
    let label = "SC, crash at every point of the first incarnation + restart, all interleavings; daemon and clients unprivileged";
    let r = privdrop::run(|| {
        let base = ctx.scratch();
        let dir0 = thread_dir(&base);
        let multi = multi_incarnation(Tier::Quick, 2, &dir0);
        let plan = Plan { works: record_all(multi, &base), mode: Mode::Sc, dev_bound: u32::MAX, stop_points: false, full_spin: false, fresh_clock: false, one_cpu: false, label: "least privilege" };
        let mut a = Agg::new();
        run_plan(ctx, Prop::C04, &plan, deadline, &mut a);
        let ws: Vec<&Work> = plan.works.iter().collect();
        let n = writer_oracles_c04(&ws, &mut a);
        json!({"agg": a.to_json(), "writer_traces": plan.works.len(), "incarnations": n})
    });
    match r {
        Err(e) => machinery_failure(&format!("least-privilege phase: {e}")),
        Ok(v) => {
            let mut a = Agg::from_json(&v["agg"]);
            for (_, (_, viol)) in a.best.iter_mut() {
                viol.text = format!("[daemon and clients unprivileged: uid 65534, no capabilities, RLIMIT_MEMLOCK 0] {}", viol.text);
                viol.replay["environment"] = json!("least-privilege");
            }
            let d = json!({"plan": label, "environment": privdrop::describe(), "writer_traces": v["writer_traces"], "incarnations_checked": v["incarnations"],
                "attaches_that_succeeded": a.attach_ok, "states": a.stats.states, "transitions": a.stats.transitions, "executions": a.stats.executions, "capped": a.stats.capped});
            if a.stats.transitions == 0 || a.attach_ok == 0 {
                // nothing could be opened at all in that environment: every attach was refused, which the attach oracle reports
                if a.best.is_empty() {
                    machinery_failure("least-privilege phase explored nothing and reported nothing");
                }
            }
            agg.merge(a);
            d
        }
    }
}

/// Confirm a violation by re-executing it twice from its replay document.
fn confirm(ctx: &Ctx, v: &Violation) -> Result<(), String> {
    let doc = &v.replay;
    if doc["calls"].as_array().map(|a| a.len() < 2).unwrap_or(true) {
        return Ok(());
    }
    let a = replay_doc_run(ctx, doc)?;
    let b = replay_doc_run(ctx, doc)?;
    if a != b {
        return Err(format!("non-deterministic replay: {a} vs {b}"));
    }
    Ok(())
}

fn replay_doc_run(ctx: &Ctx, doc: &Value) -> Result<String, String> {
    if doc["environment"] == "one-cpu" {
        // in a child process (the confinement cannot be undone)
        let mut d = doc.clone();
        d.as_object_mut().unwrap().remove("environment");
        let v = crate::common::privdrop::run_opts(|| { confine_to_one_cpu(); match replay_doc_run(ctx, &d) {
            Ok(s) => json!({"ok": s}),
            Err(e) => json!({"err": e}),
        } }, false, false)?;
        return match v["ok"].as_str() {
            Some(s) => Ok(s.to_string()),
            None => Err(v["err"].as_str().unwrap_or("?").to_string()),
        };
    }
    if doc["environment"] == "least-privilege" {
        let mut d = doc.clone();
        d.as_object_mut().unwrap().remove("environment");
        let v = crate::common::privdrop::run(|| match replay_doc_run(ctx, &d) {
            Ok(s) => json!({"ok": s}),
            Err(e) => json!({"err": e}),
        })?;
        return match v["ok"].as_str() {
            Some(s) => Ok(s.to_string()),
            None => Err(v["err"].as_str().unwrap_or("?").to_string()),
        };
    }
    let sc = Scenario::from_json(&doc["scenario"]);
    let dir = thread_dir(&ctx.scratch());
    let trace = record_trace(&sc, &dir)?;
    let mode = if doc["mode"] == "SC" { Mode::Sc } else { Mode::Ra };
    let cfg = ExploreCfg {
        client_mono_ns: doc["client_monotonic_clock_ns"].as_str().and_then(|x| x.parse().ok()),
        mode,
        dev_bound: doc["deviation_bound"].as_u64().map(|d| d as u32).unwrap_or(u32::MAX),
        cut_after: u64::MAX,
        max_data_reads: SPIN_CAP,
        end: doc["writer_stops_at"].as_u64().unwrap_or(trace.len() as u64) as u32,
        full_spin_once: false,
        max_states: usize::MAX,
        deadline_s: f64::MAX,
    };
    let path: Vec<Vec<u32>> = doc["calls"].as_array().unwrap().iter().map(|c| c.as_array().unwrap().iter().map(|x| x.as_u64().unwrap() as u32).collect()).collect();
    let out = replay_path(&trace, &cfg, doc["attach_at"].as_u64().unwrap() as u32, &path, &dir)?;
    let mut s = String::new();
    for (i, (r, rec, st)) in out.iter().enumerate() {
        s += &format!("call {i}: {:?} returned_words={:?} generations_seen={:?} loads={} record_copies={}\n", r, rec.as_ref().map(words), st.gens_seen, st.loads, st.data_reads);
    }
    Ok(s)
}

fn replay_cmd(ctx: &Ctx, path: &std::path::Path) -> i32 {
    install();
    let doc: Value = serde_json::from_str(&std::fs::read_to_string(path).expect("replay file")).expect("json");
    let case = &doc["case"];
    if case["engine"] == "seqmc-writer" && case["environment"] == "least-privilege" {
        let mut d = doc.clone();
        d["case"].as_object_mut().unwrap().remove("environment");
        let tmp = ctx.scratch().join("replay-unpriv.json");
        std::fs::write(&tmp, serde_json::to_string(&d).unwrap()).expect("scratch");
        println!("(replaying as uid 65534, no capabilities, RLIMIT_MEMLOCK 0)");
        return match crate::common::privdrop::run(|| json!(replay_cmd(ctx, &tmp))) {
            Ok(v) => v.as_i64().unwrap_or(2) as i32,
            Err(e) => {
                println!("replay failed: {e}");
                2
            }
        };
    }
    if case["engine"] == "threadmc" {
        // found by the thread explorer on the real daemon (single-producer check): replay it there
        return crate::threadmc::run(ctx);
    }
    if case["directed"].is_string() {
        // directed phases are single deterministic schedules: re-run the phase and show what it reports now
        let mut agg = Agg::new();
        let what = case["directed"].as_str().unwrap();
        let d = match what {
            "client library boundedness" => client_library_boundedness(ctx, &mut agg),
            "long sequential run" => long_sequential_run(ctx, ctx.prop.as_str(), &mut agg),
            _ => directed_continuous_writer(ctx, &mut agg),
        };
        println!("directed phase '{what}' re-run; recorded case: {case}");
        if what == "client library boundedness" {
            for r in d["results"].as_array().cloned().unwrap_or_default() {
                if r["situation"] == case["situation"] && r["library"] == case["library"] {
                    println!("now: {} / {} -> {}", r["library"], r["situation"], r["returned"]);
                }
            }
        }
        for (sig, (_, v)) in agg.best.iter() {
            println!("  {sig} :: {}", v.text);
        }
        if agg.best.is_empty() {
            println!("  no violation in this phase now");
        }
        return 0;
    }
    if case["engine"] == "seqmc-writer" {
        let sc = Scenario::from_json(&case["scenario"]);
        let dir = thread_dir(&ctx.scratch());
        match record_trace(&sc, &dir) {
            Ok(t) => {
                for (i, e) in t.events.iter().enumerate() {
                    println!("event {}: {:?} generation_in_file={:?} len={:?}", i + 1, e.kind, t.gen_at(i as u32 + 1), e.snap.as_ref().map(|s| s.len()));
                }
            }
            Err(e) => println!("trace recording failed: {e}"),
        }
        return 0;
    }
    match (replay_doc_run(ctx, case), replay_doc_run(ctx, case)) {
        (Ok(a), Ok(b)) => {
            print!("{a}");
            println!("recorded: {}", case["observed"]);
            if a != b {
                println!("NON-DETERMINISTIC replay");
                return 2;
            }
            0
        }
        (Err(e), _) | (_, Err(e)) => {
            println!("replay failed: {e}");
            2
        }
    }
}

fn base_coverage(agg: &Agg, plans: &[(String, usize)], litmus: (usize, u64), capped: bool) -> serde_json::Map<String, Value> {
    cov(vec![
        ("states", json!(agg.stats.states)),
        ("transitions", json!(agg.stats.transitions)),
        ("traces_validated_against_impl", json!(agg.stats.transitions)),
        ("samples", json!(agg.samples)),
        ("evaluations", json!(agg.stats.executions)),
        ("distinct_nontrivial", json!(agg.stats.calls_with_retry)),
        ("rule", json!("every explored transition is one execution of the real ShmReader::snapshot() against the recorded trace of the real ShmWriter; non-trivial = calls that copied the record more than once (the retry loop was exercised)")),
        ("plans", json!(plans.iter().map(|(l, n)| json!({"plan": l, "writer_traces": n})).collect::<Vec<_>>())),
        ("reader_attach_points", json!(agg.stats.attach_points)),
        ("reader_attach_refused", json!(agg.stats.attach_refused)),
        ("read_from_choice_points", json!(agg.stats.choice_points)),
        ("max_loads_per_call", json!(agg.stats.max_loads_per_call)),
        ("max_record_copies_per_call", json!(agg.stats.max_data_reads_per_call)),
        ("max_stale_reads_in_a_call", json!(agg.stats.deviations_max)),
        ("cut_equivalent_spins", json!(agg.stats.cut_spins)),
        ("spins_run_in_full", json!(agg.stats.full_spins)),
        ("distinct_outcomes", json!(agg.stats.outcomes)),
        ("violation_counts_by_class", json!(agg.counts)),
        ("litmus_self_test", json!({"programs": litmus.0, "executions": litmus.1, "result": "simulator outcome sets equal the expected C11 sets"})),
        ("capped", json!(capped)),
        ("exhaustive", json!(!capped)),
    ])
}

/// Result of the last loom cross-check of the simulator (written by ./check), if there is one.
fn loom_report(ctx: &Ctx) -> Value {
    for mode in ["full", "bounded"] {
        let p = ctx.verif_dir.join(format!("target/litmus-loom-{mode}.json"));
        if let Ok(s) = std::fs::read_to_string(&p) {
            if let Ok(mut v) = serde_json::from_str::<Value>(&s) {
                if let Some(a) = v["programs"].as_array() {
                    let short: Vec<Value> = a.iter().map(|r| json!({"program": r["program"], "loom_outcomes": r["loom_outcomes"], "simulator_outcomes": r["simulator_outcomes"], "equal": r["equal"], "loom_iterations": r["loom_iterations"]})).collect();
                    v["programs"] = json!(short);
                }
                return v;
            }
        }
    }
    json!("not run (loom cross-check unavailable)")
}

fn assumptions() -> Vec<String> {
    vec![
        "memory model: C11 release/acquire + relaxed + fences, promise-free (Kang et al. POPL'17); record bytes treated as relaxed per-chunk accesses (Boehm MSPC'12); SeqCst treated as AcqRel (sound for one writer and non-storing readers)".into(),
        "one writer process at a time (documented precondition of ShmWriter::new); readers never store, so one reader explored exhaustively covers any number of readers".into(),
        "writer-first reduction: under RA the observations of a reader do not depend on how the two were interleaved, only on which messages exist and on the reader's view".into(),
        "stutter elimination: re-reading an unchanged stale message a third time in a row is pruned (a deterministic reader repeats its previous iteration)".into(),
        "system calls (open/read/mmap, every step of wipe) synchronise fully".into(),
    ]
}

pub fn run(ctx: &Ctx) -> i32 {
    crate::common::report::quiet_panics();
    if let Some(p) = &ctx.replay {
        return replay_cmd(ctx, p);
    }
    let lit = match litmus::self_test() {
        Ok(x) => x,
        Err(e) => machinery_failure(&format!("memory-model simulator self-test failed: {e}")),
    };
    install();
    static_bypass_scan(ctx);
    match ctx.prop.as_str() {
        "C11" => run_c11(ctx),
        "C02" => run_reader_prop(ctx, Prop::C02, lit),
        "C03" => run_reader_prop(ctx, Prop::C03, lit),
        "C04" => run_reader_prop(ctx, Prop::C04, lit),
        "C18" => run_reader_prop(ctx, Prop::C18, lit),
        _ => machinery_failure("seqmc: unknown property"),
    }
}

/// A source-level shim cannot see an access written with a fully qualified std path. Refuse to
/// judge (exit 2) rather than judge blindly.
fn static_bypass_scan(ctx: &Ctx) {
    for f in ["reader.rs", "writer.rs", "shm_header.rs"] {
        let p = ctx.repo_dir.join("clock-bound-shm/src").join(f);
        let s = match std::fs::read_to_string(&p) {
            Ok(s) => s,
            Err(e) => machinery_failure(&format!("cannot read {}: {e}", p.display())),
        };
        let mut prev = "";
        for line in s.lines() {
            let code = line.split("//").next().unwrap_or("");
            let allowed = code.trim() == "use std::sync::atomic;" && prev.trim() == "#[cfg(not(clock_bound_verif))]";
            if (code.contains("std::sync::atomic") || code.contains("core::sync::atomic")) && !allowed {
                machinery_failure(&format!("{}: direct use of std::sync::atomic ({}) bypasses the interception layer; cannot judge this tree", p.display(), line.trim()));
            }
            if code.contains("asm!") {
                machinery_failure(&format!("{}: inline assembly bypasses the interception layer", p.display()));
            }
            prev = line;
        }
    }
}

fn run_reader_prop(ctx: &Ctx, prop: Prop, lit: (usize, u64)) -> i32 {
    let tier = ctx.tier;
    let base = ctx.scratch();
    let dir0 = thread_dir(&base);
    let budget = ctx.opt_usize("budget_s").map(|b| b as f64).unwrap_or(tier.pick(600.0, 2400.0));
    let deadline = raw_now_s() + budget;
    let mut plans: Vec<Plan> = vec![];
    let unb = u32::MAX;
    match prop {
        Prop::C02 | Prop::C03 => {
            plans.push(Plan { works: record_all(single_incarnation(tier, 2, &[1, 2]), &base), mode: Mode::Ra, dev_bound: unb, stop_points: false, full_spin: false, fresh_clock: false, one_cpu: false, label: "RA, K<=2 updates, 2 record chunks, all read-from choices" });
            plans.push(Plan { works: record_all(single_incarnation(tier, 7, &[1, 2, 3]), &base), mode: Mode::Ra, dev_bound: tier.pick(3, 5), stop_points: false, full_spin: false, fresh_clock: false, one_cpu: false, label: "RA, K<=3 updates, 7 record words, bounded stale reads" });
            // publications that differ from their predecessor in the status word only (what the daemon really
            // publishes while the bound is frozen): a reader that short-cuts on "nothing I look at changed"
            // would go unnoticed with records that differ everywhere
            let fam1: Vec<Scenario> = single_incarnation(tier, 2, &[1, 2]).into_iter().map(|mut s| { s.family = 1; s }).collect();
            plans.push(Plan { works: record_all(fam1.clone(), &base), mode: Mode::Sc, dev_bound: unb, stop_points: false, full_spin: false, fresh_clock: false, one_cpu: false, label: "SC, K<=2 updates that change the status word only, all interleavings" });
            plans.push(Plan { works: record_all(fam1, &base), mode: Mode::Ra, dev_bound: tier.pick(3, 5), stop_points: false, full_spin: false, fresh_clock: false, one_cpu: false, label: "RA, K<=2 updates that change the status word only, bounded stale reads" });
            for (fam, what_sc, what_ra) in [
                (2u8, "SC, K<=3 updates alternating a real record with the all-zero placeholder, all interleavings", "RA, same records, bounded stale reads"),
                (3u8, "SC, K<=3 updates republishing an identical record, all interleavings", "RA, same records, bounded stale reads"),
            ] {
                let scs: Vec<Scenario> = single_incarnation(Tier::Quick, 2, &[2, 3]).into_iter().map(|mut s| { s.family = fam; s }).collect();
                plans.push(Plan { works: record_all(scs.clone(), &base), mode: Mode::Sc, dev_bound: unb, stop_points: false, full_spin: false, fresh_clock: false, one_cpu: false, label: what_sc });
                plans.push(Plan { works: record_all(scs, &base), mode: Mode::Ra, dev_bound: tier.pick(2, 4), stop_points: false, full_spin: false, fresh_clock: false, one_cpu: false, label: what_ra });
            }
            // the client's own clock: records whose as-of is a fraction of a second ago (a reader that decides by the age of
            // what it holds takes another path than with the ancient records of the other plans)
            plans.push(Plan { works: record_all(single_incarnation(Tier::Quick, 2, &[2]), &base), mode: Mode::Sc, dev_bound: unb, stop_points: false, full_spin: false, fresh_clock: true, one_cpu: false, label: "SC, K=2 updates, the client's monotonic clock 0.4 s after the first record's as-of" });
            if prop == Prop::C02 {
                // the client confined to ONE CPU (taskset, a one-CPU cpuset): what the process may run on is an input like
                // any other (std::thread::available_parallelism() answers 1); the daemon still runs elsewhere
                plans.push(Plan { works: record_all(single_incarnation(Tier::Quick, 2, &[2]), &base), mode: Mode::Ra, dev_bound: unb, stop_points: false, full_spin: false, fresh_clock: false, one_cpu: true, label: "RA, K=2 updates, all read-from choices, the reader's process confined to one CPU" });
                plans.push(Plan { works: record_all(single_incarnation(tier, 2, &[1, 2]), &base), mode: Mode::Ra, dev_bound: tier.pick(2, 4), stop_points: true, full_spin: true, fresh_clock: false, one_cpu: false, label: "RA, writer stops for ever at every point (calls that exhaust their retries are run in full), bounded stale reads" });
            }
            if prop == Prop::C03 {
                plans.push(Plan { works: record_all(restarts_with_rejected_records(), &base), mode: Mode::Sc, dev_bound: unb, stop_points: false, full_spin: false, fresh_clock: false, one_cpu: false, label: "SC, clean restarts over records a client's now() rejects (drift >= 2e9 ppb), readers attached across the restart" });
                plans.push(Plan { works: record_all(single_incarnation(tier, 2, &[1, 2, 3]), &base), mode: Mode::Sc, dev_bound: unb, stop_points: false, full_spin: false, fresh_clock: false, one_cpu: false, label: "SC, K<=3 updates, 2 record chunks, all interleavings" });
            }
            if tier == Tier::Thorough {
                plans.push(Plan { works: record_all(single_incarnation(tier, 2, &[3]), &base), mode: Mode::Ra, dev_bound: unb, stop_points: false, full_spin: false, fresh_clock: false, one_cpu: false, label: "RA, K=3 updates, 2 record chunks, all read-from choices" });
                plans.push(Plan { works: record_all(single_incarnation(tier, 4, &[2]), &base), mode: Mode::Ra, dev_bound: unb, stop_points: false, full_spin: false, fresh_clock: false, one_cpu: false, label: "RA, K=2 updates, 4 record chunks, all read-from choices" });
            }
        }
        Prop::C04 => {
            let multi = multi_incarnation(tier, 2, &dir0);
            plans.push(Plan { works: record_all(multi.clone(), &base), mode: Mode::Sc, dev_bound: unb, stop_points: false, full_spin: false, fresh_clock: false, one_cpu: false, label: "SC, crash at every point of the first incarnation + restart, all interleavings" });
            plans.push(Plan { works: record_all(multi, &base), mode: Mode::Ra, dev_bound: tier.pick(3, 5), stop_points: false, full_spin: false, fresh_clock: false, one_cpu: false, label: "RA, crash at every point + restart, bounded stale reads" });
            plans.push(Plan { works: record_all(single_incarnation(tier, 2, &[1, 2]), &base), mode: Mode::Sc, dev_bound: unb, stop_points: true, full_spin: true, fresh_clock: false, one_cpu: false, label: "SC, writer dies for good at every point (calls that exhaust their retries are run in full)" });
            // what the file's time stamps say is no part of the protocol: a daemon that was up for 40 minutes leaves a
            // file "last modified" 40 minutes ago (stores through the mapping do not move st_mtime), a stepped wall
            // clock leaves one older than the boot or from the future. Restarts and attaches with such stamps.
            let mut aged: Vec<Scenario> = vec![];
            for ft in [1u8, 2, 3, 4, 5, 6, 7] {
                for sc in multi_incarnation(Tier::Quick, 2, &dir0) {
                    // the restart after a clean exit and after a crash inside the first update
                    if matches!(sc.init, Init::Valid(_)) && (sc.incs[0].1.is_none() || sc.incs[0].1 == Some(3)) {
                        aged.push(Scenario { file_times: ft, ..sc });
                    }
                }
            }
            // what was at the path before matters to a wipe that does not start from an empty file: segments that are
            // valid but for one header field (a foreign magic number, version 0, generation 0, a short declared size),
            // every crash point of the repairing incarnation, then a restart
            let mut almost: Vec<Scenario> = vec![];
            for (off, val) in [(0usize, 0x58u8), (4, 0x58), (12, 0), (14, 0), (8, 40)] {
                let mut b = valid_file(6, &tagged(777));
                b[off] = val;
                if off == 12 || off == 14 {
                    b[off + 1] = 0;
                }
                almost.extend(with_crashes(&Scenario { init: Init::Bytes(b), incs: vec![(1, None), (1, None)], chunks: 2, family: 0, file_times: 0 }, &dir0));
            }
            plans.push(Plan { works: record_all(almost, &base), mode: Mode::Sc, dev_bound: unb, stop_points: false, full_spin: false, fresh_clock: false, one_cpu: false, label: "SC, repair of a segment that is valid but for one header field (foreign magic, version 0, generation 0, declared size 40), crash at every point + restart" });
            plans.push(Plan { works: record_all(restarts_with_rejected_records(), &base), mode: Mode::Sc, dev_bound: unb, stop_points: false, full_spin: false, fresh_clock: false, one_cpu: false, label: "SC, clean restarts over records a client's now() rejects (drift >= 2e9 ppb)" });
            plans.push(Plan { works: record_all(aged, &base), mode: Mode::Sc, dev_bound: unb, stop_points: false, full_spin: false, fresh_clock: false, one_cpu: false, label: "SC, restart after a clean exit / a crash mid-update on a segment file whose time stamps are 40 min old, from 2001, or 1 h ahead, or whose mode is 0664 / 0666, or that belongs to another user (uid 65534, mode 0644 / 0666)" });
        }
        Prop::C18 => {
            plans.push(Plan { works: record_all(single_incarnation(tier, 2, &[1, 2]), &base), mode: Mode::Ra, dev_bound: tier.pick(2, 4), stop_points: true, full_spin: true, fresh_clock: false, one_cpu: false, label: "RA, writer stops for ever at every point, bounded stale reads" });
            plans.push(Plan { works: record_all(single_incarnation(tier, 2, &[1, 2]), &base), mode: Mode::Sc, dev_bound: unb, stop_points: true, full_spin: true, fresh_clock: false, one_cpu: false, label: "SC, writer stops for ever at every point, all interleavings" });
            plans.push(Plan { works: record_all(single_incarnation(Tier::Quick, 2, &[2]), &base), mode: Mode::Sc, dev_bound: unb, stop_points: true, full_spin: true, fresh_clock: true, one_cpu: false, label: "SC, writer stops for ever at every point, the client's monotonic clock 0.4 s after the first record's as-of" });
            let rep: Vec<Scenario> = single_incarnation(Tier::Quick, 2, tier.pick(&[2][..], &[2, 3][..])).into_iter().filter(|s| tier == Tier::Thorough || matches!(s.init, Init::Absent | Init::Valid(2))).map(|mut s| { s.family = 3; s }).collect();
            plans.push(Plan { works: record_all(rep, &base), mode: Mode::Sc, dev_bound: unb, stop_points: true, full_spin: true, fresh_clock: false, one_cpu: false, label: "SC, an identical record republished, writer stops for ever at every point" });
        }
    }
    // (C02) the explorer's verdicts are about ONE producer; that the daemon has only one is checked on the daemon
    // itself, before this engine's hooks replace the thread explorer's
    let single_producer = if prop == Prop::C02 { Some(crate::threadmc::single_producer_scan(ctx)) } else { None };
    install();
    let mut agg = Agg::new();
    if let Some((_, vs)) = &single_producer {
        for v in vs {
            agg.add(v.signature.clone(), 0, v.text.clone(), v.replay.clone());
        }
    }
    let mut plan_info = vec![];
    let t_phase = raw_now_s();
    let mut phase_times: Vec<(String, f64)> = vec![];
    for p in &plans {
        plan_info.push((p.label.to_string(), p.works.len()));
        let t = raw_now_s();
        run_plan(ctx, prop, p, deadline, &mut agg);
        phase_times.push((p.label.to_string(), raw_now_s() - t));
    }
    let _ = t_phase;
    let mut extra: Vec<(&str, Value)> = vec![];
    if let Some((ev, _)) = single_producer {
        extra.push(("single_producer_check_on_the_real_daemon", ev));
    }
    if prop == Prop::C02 {
        // ... and about ONE caller per reader (common/apiprobe.rs)
        let (premise, torn) = crate::common::apiprobe::single_caller_premise(&base);
        if let Some(t) = torn {
            agg.add("C02:client-shared-between-threads".into(), 0, t, json!({"engine": "seqmc", "directed": "single-caller premise (common/apiprobe.rs)", "observed": premise, "calls": []}));
        }
        extra.push(("single_caller_premise", premise));
    }
    if prop == Prop::C04 {
        let multi: Vec<&Work> = plans.iter().flat_map(|p| p.works.iter()).collect();
        let wv = writer_oracles_c04(&multi, &mut agg);
        extra.push(("writer_side_incarnations_checked", json!(wv)));
    }
    if prop == Prop::C04 {
        let d = least_privilege_phase(ctx, deadline, &mut agg);
        extra.push(("least_privilege_environment", d));
    }
    if prop == Prop::C04 {
        let d = e2e_self_exit_and_restart(ctx, &mut agg);
        extra.push(("end_to_end_daemon_that_ends_by_itself_and_its_successor", d));
    }
    if prop == Prop::C18 {
        let d = e2e_stalled_daemon(ctx, &mut agg);
        extra.push(("end_to_end_daemon_stopped_inside_segment_creation", d));
    }
    if prop == Prop::C18 {
        let d = directed_continuous_writer(ctx, &mut agg);
        extra.push(("directed_continuous_writer_scenario", d));
        let d = client_library_boundedness(ctx, &mut agg);
        extra.push(("client_library_calls", d));
    }
    if prop == Prop::C03 {
        let d = long_sequential_run(ctx, "C03", &mut agg);
        extra.push(("long_sequential_run", d));
    }
    let capped = agg.stats.capped;
    let mut coverage = base_coverage(&agg, &plan_info, lit, capped);
    for (k, v) in extra {
        coverage.insert(k.into(), v);
    }
    coverage.insert("budget_s".into(), json!(budget));
    coverage.insert("wall_s_per_plan".into(), json!(phase_times.iter().map(|(l, t)| json!({"plan": l, "wall_s": (t * 10.0).round() / 10.0})).collect::<Vec<_>>()));
    coverage.insert("loom_cross_check_of_the_simulator".into(), loom_report(ctx));
    let mut violations: Vec<Violation> = vec![];
    for (_, (_, v)) in agg.best.iter() {
        if let Err(e) = confirm(ctx, v) {
            machinery_failure(&format!("violation {} could not be confirmed by replay: {e}", v.signature));
        }
        violations.push(v.clone());
    }
    if agg.stats.transitions == 0 {
        machinery_failure("nothing was explored before the cap");
    }
    finish(ctx, Outcome { level: if prop == Prop::C04 { "fault_enumeration" } else { "model_checking" }, coverage, assumptions: assumptions(), violations })
}

/// (C04) The daemon deaths the in-process explorations cannot produce are the ones the daemon performs itself: a
/// worker thread dies, everything is torn down in order and `main()` returns - every line after the loops runs.
/// procmc/e2e.rs `run_worker_death` does that to the release binary and starts a successor; the file must still
/// be there (same inode, 72 bytes, even generation) and a client that stayed attached must see the successor.
fn e2e_self_exit_and_restart(ctx: &Ctx, agg: &mut Agg) -> Value {
    use crate::procmc::e2e;
    let bin = e2e::binary(ctx);
    if !std::path::Path::new(&bin).exists() {
        return json!({"skipped": format!("release binary {bin} not built")});
    }
    let shim = match e2e::shim(ctx) {
        Ok(s) => s,
        Err(e) => machinery_failure(&format!("C04: {e}")),
    };
    let v = match e2e::run_worker_death(&bin, &shim, 0, true, false) {
        Ok(v) => v,
        Err(e) => machinery_failure(&format!("C04 end-to-end scenario: {e}")),
    };
    if let Some(u) = v["unavailable"].as_str() {
        return json!({"skipped": format!("the sandbox does not allow it: {u}")});
    }
    if e2e::too_slow(&v) {
        return json!({"verdict": e2e::slow_note(&v), "observed": v});
    }
    if v["first_lifetime_never_synchronized"] == true {
        machinery_failure("C04 end-to-end scenario: the first daemon never published a Synchronized record against the stand-in chronyd");
    }
    let doc = json!({"engine": "seqmc", "directed": "end to end: a daemon that ends by itself, then its successor", "observed": v, "calls": []});
    let first_ino = v["first_synchronized_publication"]["inode"].as_u64();
    let left = &v["left_behind"];
    if v["daemon_exit_status"].is_null() {
        // C15's matter, not C04's: without an exit there is no restart to look at
        return json!({"skipped": "the daemon did not end by itself when its polling thread died (C15 reports that)", "observed": v});
    }
    if left["exists"] != true {
        agg.add("C04:e2e:segment-removed-on-exit".into(), 0, "a daemon whose polling thread died shut itself down and left NO file at the segment path: the valid segment it had published is gone (clients that attach now find nothing; the successor cannot take it over in place)".into(), doc.clone());
    } else {
        if left["inode"].as_u64() != first_ino {
            agg.add("C04:e2e:segment-replaced-on-exit".into(), 0, format!("a daemon that shut itself down left another file at the segment path (inode {} instead of {})", left["inode"], v["first_synchronized_publication"]["inode"]), doc.clone());
        }
        let g = left["generation"].as_u64().unwrap_or(0);
        if left["length"].as_u64() != Some(72) || g == 0 || g % 2 == 1 {
            agg.add("C04:e2e:segment-invalid-after-exit".into(), 0, format!("a daemon that shut itself down left a segment of {} bytes with generation {g}", left["length"]), doc.clone());
        }
    }
    let second = &v["second_lifetime"];
    if second["published_synchronized"] != true {
        agg.add("C04:e2e:successor-does-not-publish".into(), 0, "the successor of a daemon that shut itself down did not publish a Synchronized record within 20 s".into(), doc.clone());
    } else {
        if second["inode_of_path_now"].as_u64() != first_ino {
            agg.add("C04:e2e:not-taken-over-in-place".into(), 0, format!("the successor of a daemon that shut itself down publishes into another file (inode {} instead of {}): clients attached to the first daemon's segment never see it", second["inode_of_path_now"], v["first_synchronized_publication"]["inode"]), doc.clone());
        }
        // taken over in place: the generation goes on from where the predecessor left it (lifetimes of seconds: no wrap)
        let left_gen = left["generation"].as_u64().unwrap_or(0);
        let first_new = second["generation"].as_u64().unwrap_or(u64::MAX);
        if first_new <= left_gen {
            agg.add("C04:e2e:valid-segment-reinitialised".into(), 0, format!("the predecessor left a valid segment with generation {left_gen}; its successor's first new publication carries generation {first_new}: the segment was re-initialised (the generation started again) instead of taken over in place"), doc.clone());
        } else if let Some(back) = second["generations_seen_in_the_file"].as_array().and_then(|a| a.iter().filter_map(|g| g.as_u64()).find(|g| *g < left_gen)) {
            agg.add("C04:e2e:valid-segment-reinitialised".into(), 0, format!("the predecessor left a valid segment with generation {left_gen}; while its successor started, generation {back} was visible in the file ({}): the segment was re-initialised instead of taken over in place (clients see the generation go back, through 0)", second["generations_seen_in_the_file"]), doc.clone());
        }
        if second["attached_client_caught_up"] != true {
            agg.add("C04:e2e:attached-client-stuck".into(), 0, format!("a client that attached during the first daemon's lifetime and stayed attached never sees the successor's publications (it sees {})", second["attached_client_sees"]), doc.clone());
        }
    }
    json!({"kind": "directed (real time, release binary in a private mount namespace)", "observed": v})
}

/// (C18) "Reading never blocks on the daemon", for a daemon that is stopped - not dead - inside the creation of
/// its segment: what the kernel holds for a stopped process (open descriptors, record locks) is still held, and
/// only another process can tell. procmc/e2e.rs `run_stalled_daemon`, at every write(2) of the segment's
/// creation and at its fsync, with nothing or garbage at the path before.
fn e2e_stalled_daemon(ctx: &Ctx, agg: &mut Agg) -> Value {
    use crate::procmc::e2e;
    let bin = e2e::binary(ctx);
    if !std::path::Path::new(&bin).exists() {
        return json!({"skipped": format!("release binary {bin} not built")});
    }
    let shim = match e2e::shim(ctx) {
        Ok(s) => s,
        Err(e) => machinery_failure(&format!("C18: {e}")),
    };
    let mut points: Vec<String> = ctx.tier.pick(vec![0usize, 4, 9], (0..24).collect()).into_iter().map(|k| format!("write:{k}")).collect();
    points.push("fsync".into());
    let cases: Vec<(String, Option<Vec<u8>>)> = points.iter().flat_map(|p| [(p.clone(), None), (p.clone(), Some(b"garbage!\n".to_vec()))]).collect();
    let limit_ms = 5000;
    let results: Vec<Result<Value, String>> = std::thread::scope(|s| {
        let hs: Vec<_> = cases.iter().map(|(p, pre)| { let (bin, shim) = (bin.clone(), shim.clone()); s.spawn(move || e2e::run_stalled_daemon(&bin, &shim, p, pre.clone(), limit_ms)) }).collect();
        hs.into_iter().map(|h| h.join().unwrap_or_else(|_| Err("scenario thread panicked".into()))).collect()
    });
    let mut report = vec![];
    let mut reached = 0;
    for ((p, pre), r) in cases.iter().zip(results) {
        let v = match r {
            Ok(v) => v,
            Err(e) => machinery_failure(&format!("C18 end-to-end scenario (stall at {p}): {e}")),
        };
        if let Some(u) = v["unavailable"].as_str() {
            return json!({"skipped": format!("the sandbox does not allow it: {u}")});
        }
        let before = if pre.is_some() { "9 bytes of garbage" } else { "nothing" };
        if e2e::too_slow(&v) {
            reached += 1;
            report.push(json!({"daemon_stopped_at": p, "at_the_path_before": before, "verdict": e2e::slow_note(&v)}));
            continue;
        }
        if v["stall_point_reached"] == true {
            reached += 1;
            if v["client_returned"] != true {
                agg.add("C18:e2e:client-blocks-on-a-stopped-daemon".into(), 0, format!("with the daemon stopped (not dead) at '{p}' of creating its segment ({before} at the path before), a client process that opens the segment has not returned after {limit_ms} ms: reading blocks on the daemon"),
                    json!({"engine": "seqmc", "directed": "end to end: a daemon stopped inside the creation of its segment", "stall_point": p, "before": before, "observed": v, "calls": []}));
            }
        }
        report.push(json!({"daemon_stopped_at": p, "at_the_path_before": before, "observed": v}));
    }
    if reached == 0 {
        machinery_failure("C18 end-to-end: no stall point was reached (the shim is not in effect?)");
    }
    json!({"kind": "directed (real time, release binary in a private mount namespace, harness/cabi/envshim.c stops the daemon)", "stall_points_reached": reached, "client_time_limit_ms": limit_ms, "scenarios": report})
}

/// A long sequential run (real memory, no exploration): 70 000 consecutive publications through the
/// 16-bit wrap, with a long-lived reader calling after every publication, a second one calling every
/// 997th and a fresh reader every 4999th; every call happens while the writer is idle and must return
/// the latest publication. The bounded explorations above cover every interleaving of a handful of
/// updates; this covers what only arms after many (counters, the wrap reached by counting, state
/// carried across thousands of calls). Returns (publications, reader calls).
fn long_sequential_run(ctx: &Ctx, pfx: &str, agg: &mut Agg) -> Value {
    use clock_bound_shm::{ShmReader, ShmWrite, ShmWriter};
    let dir = thread_dir(&ctx.scratch());
    let path = dir.join("long");
    let _ = std::fs::remove_file(&path);
    let cpath = std::ffi::CString::new(path.to_str().unwrap()).unwrap();
    let mut w = ShmWriter::new(&path).expect("writer");
    let n: i64 = 70_000;
    let rec = |k: i64| Rec { as_of_s: 5000 + k / 3, as_of_ns: (k % 7) * 1000, va_s: 6000 + k / 3, va_ns: 0, bound: 1000 + (k % 5), drift: 1000, reserved: 0, status: [1u32, 2, 0][(k % 3) as usize] };
    let mut every: Option<ShmReader> = None;
    let mut sparse: Option<ShmReader> = None;
    let mut calls = 0u64;
    let mut restarts = 0u64;
    // a second, unrelated segment with its own writer and reader in the same process, published to at another
    // cadence: whatever a reader keeps must be its own (nothing shared between instances)
    let path2 = dir.join("long-other");
    let _ = std::fs::remove_file(&path2);
    let cpath2 = std::ffi::CString::new(path2.to_str().unwrap()).unwrap();
    let mut w2 = ShmWriter::new(&path2).expect("second writer");
    let rec2 = |k: i64| Rec { as_of_s: 77_000 + k, as_of_ns: 5, va_s: 78_000 + k, va_ns: 6, bound: 9_000_000 + (k % 11), drift: 222, reserved: 0, status: [2u32, 1][(k % 2) as usize] };
    let mut last2 = 0i64;
    w2.write(&rec2(last2).to_ceb());
    let mut other: Option<ShmReader> = ShmReader::new(&cpath2).ok();
    for k in 1..=n {
        if k % 3 == 0 {
            last2 = k;
            w2.write(&rec2(k).to_ceb());
        }
        if k % 2 == 0 || k % 3 == 0 {
            match other.as_mut().map(|r| r.snapshot().map(Rec::from_ceb).map_err(|e| format!("{e:?}"))) {
                Some(got) if got == Ok(rec2(last2)) => calls += 1,
                got => {
                    agg.add(format!("{pfx}:long-run:second-segment"), 0, format!("sequential run with two segments in one process: the reader of the second segment obtained {:?} instead of that segment's latest publication {}", got, rec2(last2).json()), json!({"engine": "seqmc", "directed": "long sequential run", "publication": k, "reader": "second segment", "calls": []}));
                    break;
                }
            }
        }
        if k % 10_007 == 0 {
            // a clean daemon restart on the way
            drop(w);
            close_leaked_fds(&path);
            w = ShmWriter::new(&path).expect("writer restart");
            restarts += 1;
        }
        w.write(&rec(k).to_ceb());
        if every.is_none() {
            every = ShmReader::new(&cpath).ok();
        }
        let mut check = |r: &mut ShmReader, who: &str, calls: &mut u64, agg: &mut Agg| {
            *calls += 1;
            let got = r.snapshot().map(Rec::from_ceb).map_err(|e| format!("{e:?}"));
            if got != Ok(rec(k)) {
                agg.add(format!("{pfx}:long-run:stale-or-wrong"), 0, format!("sequential run: after publication {k} (writer idle) a {who} reader obtained {:?} instead of the record just published", got.as_ref().map(|r| r.json())), json!({"engine": "seqmc", "directed": "long sequential run", "publication": k, "reader": who, "calls": []}));
                return false;
            }
            true
        };
        if let Some(r) = every.as_mut() {
            if !check(r, "long-lived (called after every publication)", &mut calls, agg) {
                break;
            }
        }
        if k % 997 == 0 {
            if sparse.is_none() {
                sparse = ShmReader::new(&cpath).ok();
            }
            if let Some(r) = sparse.as_mut() {
                if !check(r, "long-lived (called every 997th publication)", &mut calls, agg) {
                    break;
                }
            }
        }
        if k % 4999 == 0 {
            match ShmReader::new(&cpath) {
                Ok(mut r) => {
                    if !check(&mut r, "newly attached", &mut calls, agg) {
                        break;
                    }
                }
                Err(e) => {
                    agg.add(format!("{pfx}:long-run:cannot-attach"), 0, format!("sequential run: after publication {k} a new reader cannot attach: {e:?}"), json!({"engine": "seqmc", "directed": "long sequential run", "publication": k, "calls": []}));
                    break;
                }
            }
        }
        // the file as a third-party reader sees it
        if k % 1 == 0 {
            let g = w_generation(&path);
            if g == 0 || g % 2 == 1 {
                agg.add(format!("{pfx}:long-run:generation"), 0, format!("sequential run: after publication {k} the generation in the file is {g}"), json!({"engine": "seqmc", "directed": "long sequential run", "publication": k, "calls": []}));
                break;
            }
        }
    }
    drop(w);
    drop(w2);
    close_leaked_fds(&path);
    close_leaked_fds(&path2);
    json!({"kind": "directed (one sequential schedule)", "publications": n, "clean_restarts": restarts, "reader_calls": calls, "second_segment_in_the_same_process": true})
}

fn w_generation(path: &std::path::Path) -> u16 {
    use std::os::unix::fs::FileExt;
    let mut g = [0u8; 2];
    match std::fs::File::open(path) {
        Ok(f) => {
            let _ = f.read_exact_at(&mut g, 14);
            u16::from_ne_bytes(g)
        }
        Err(_) => 0,
    }
}

/// C04 (c): in-place takeover of a valid segment; repair of an unusable one.
fn writer_oracles_c04(works: &[&Work], agg: &mut Agg) -> u64 {
    let mut n = 0;
    for w in works {
        for (ii, inc) in w.trace.incs.iter().enumerate() {
            n += 1;
            let doc = || json!({"engine": "seqmc-writer", "scenario": w.sc.json(), "incarnation": ii, "calls": []});
            if inc.usable_before && inc.new_ok && inc.ino_before.is_some() && inc.ino_after_new != inc.ino_before {
                agg.add("C04:valid-segment-recreated".into(), 0, format!("incarnation {ii} found a valid segment and replaced it by a new file (inode {:?} -> {:?}): attached clients keep the old one mapped and never see another publication", inc.ino_before, inc.ino_after_new), doc());
            }
            if inc.new_ok && inc.ino_after_exit != inc.ino_after_new {
                agg.add("C04:segment-replaced-or-removed-at-exit".into(), 0, format!("incarnation {ii} ({}) left the segment path naming {:?}, it named {:?} while the daemon ran: clients attached to the old file are cut off from the restarted daemon", if inc.crashed { "killed" } else { "clean exit" }, inc.ino_after_exit, inc.ino_after_new), doc());
            }
            if inc.usable_before {
                if inc.wiped {
                    agg.add("C04:valid-segment-wiped".into(), 0, format!("incarnation {ii} found a valid segment and re-initialised it instead of taking it over in place"), doc());
                }
                let before = w.trace.snap_at(inc.begin).cloned().unwrap_or_default();
                for p in inc.begin + 1..=inc.end {
                    match w.trace.snap_at(p) {
                        Some(s) if s.len() >= before.len() && s[..12] == before[..12] => {}
                        other => {
                            agg.add("C04:valid-segment-emptied".into(), 0, format!("incarnation {ii}: at position {p} the file is {:?} bytes long / header changed, although the segment was valid before the restart", other.map(|s| s.len())), doc());
                            break;
                        }
                    }
                }
            }
            // after the first completed publication of an incarnation the segment must be attachable and 72 bytes if it had to be re-created
            if let Some(sp) = w.trace.spans.iter().find(|s| s.inc == ii && s.end.is_some()) {
                let p = sp.end.unwrap();
                match w.trace.snap_at(p) {
                    Some(s) if reference_valid(s) => {
                        if inc.wiped && s.len() != SEG {
                            agg.add("C04:recreated-segment-wrong-size".into(), 0, format!("re-created segment is {} bytes, documented layout is {SEG}", s.len()), doc());
                        }
                        if Rec::from_bytes(&s[HDR..]) != sp.rec {
                            agg.add("C04:published-record-not-in-file".into(), 0, "after the first publication the file does not hold the published record".into(), doc());
                        }
                    }
                    _ => agg.add("C04:not-attachable-after-first-publication".into(), 0, format!("incarnation {ii}: after its first complete publication the segment is still not valid for new clients"), doc()),
                }
            }
        }
    }
    n
}

/// A writer that completes one update between every record copy and re-check of the reader
/// (directed, not exhaustive): the call must terminate with an error or a record.
fn directed_continuous_writer(ctx: &Ctx, agg: &mut Agg) -> Value {
    use clock_bound_shm::{ShmReader, ShmWrite, ShmWriter};
    // no memory model needed: real memory, the hook on the reader's record copy drives the writer
    let dir = thread_dir(&ctx.scratch());
    let path = dir.join("cont");
    let _ = std::fs::remove_file(&path);
    let mut w = ShmWriter::new(&path).expect("writer");
    w.write(&tagged(1).to_ceb());
    let cpath = std::ffi::CString::new(path.to_str().unwrap()).unwrap();
    let mut r = ShmReader::new(&cpath).expect("reader");
    // engine is Off: hooks pass through. Drive the writer from a second thread as fast as it can while the reader retries.
    let stop = std::sync::Arc::new(std::sync::atomic::AtomicBool::new(false));
    let stop2 = stop.clone();
    struct SendW(ShmWriter);
    // SAFETY: the writer is moved to exactly one other thread and only used there
    unsafe impl Send for SendW {}
    let sw = SendW(w);
    let h = std::thread::spawn(move || {
        let mut sw = sw;
        let mut k = 2i64;
        while !stop2.load(std::sync::atomic::Ordering::Relaxed) {
            sw.0.write(&tagged(k).to_ceb());
            k += 1;
        }
        k
    });
    let t0 = raw_now_s();
    let mut calls = 0u64;
    let mut errs = 0u64;
    let mut worst = 0.0f64;
    while raw_now_s() - t0 < 1.0 {
        let c0 = raw_now_s();
        match r.snapshot() {
            Ok(_) => {}
            Err(_) => errs += 1,
        }
        worst = worst.max(raw_now_s() - c0);
        calls += 1;
    }
    stop.store(true, std::sync::atomic::Ordering::Relaxed);
    let updates = h.join().unwrap_or(0);
    if worst > 10.0 {
        agg.add("C18:continuous-writer-starves-reader".into(), 0, format!("a snapshot() call took {worst:.1} s against a continuously updating writer"), json!({"engine": "seqmc", "directed": "continuous writer", "calls": []}));
    }
    // adversarial schedule (one schedule, deterministic): the writer completes one update between every
    // record copy of the reader and its re-check. A bounded reader gives up by itself; if the call only
    // returns once the adversary stops updating, its termination depends on the daemon pausing.
    let path2 = dir.join("adv");
    let _ = std::fs::remove_file(&path2);
    let mut w2 = ShmWriter::new(&path2).expect("writer");
    w2.write(&tagged(1).to_ceb());
    let cpath2 = std::ffi::CString::new(path2.to_str().unwrap()).unwrap();
    let mut r2 = ShmReader::new(&cpath2).expect("reader");
    let max_updates: u64 = 3_000_000;
    ADVERSARY.with(|a| *a.borrow_mut() = Some(Adversary { writer: w2, updates: 0, max_updates, copies: 0 }));
    let t1 = raw_now_s();
    let res = r2.snapshot().map(|_| ()).map_err(|e| format!("{e:?}"));
    let adv = ADVERSARY.with(|a| a.borrow_mut().take()).expect("adversary");
    let adv_wall = raw_now_s() - t1;
    if adv.updates >= max_updates {
        agg.add("C18:unbounded-under-continuous-updates".into(), 0, format!("with the writer completing one update between every record copy and re-check, snapshot() was still retrying after {} copies and only returned ({res:?}) once the writer stopped updating", adv.copies), json!({"engine": "seqmc", "directed": "adversarial continuous writer", "calls": []}));
    }
    let made = adv.updates;
    let copies = adv.copies;
    drop(adv);
    close_leaked_fds(&path2);
    json!({"free_running": {"kind": "directed (free-running threads, not exhaustive)", "reader_calls": calls, "reader_errors": errs, "writer_updates": updates, "longest_call_s": worst},
           "adversarial": {"kind": "directed (one deterministic schedule: an update between every copy and re-check)", "updates_the_adversary_was_prepared_to_make": max_updates, "updates_made": made, "record_copies_in_the_call": copies, "result": format!("{res:?}"), "wall_s": adv_wall}})
}

/// C18 one level up: the calls applications really make (`ClockBoundClient::now()`, the C library's
/// `clockbound_now()`) in every situation a client can find the segment in with no daemon around to change
/// it, under a virtual clock that does not advance. Each call runs where a hang can be observed and ended:
/// the Rust client in a forked child with a real-time limit, the C library in the C program of the C17
/// check (whose replies are read with a limit). Only termination is judged here; the answers are C05/C14/C17's.
fn client_library_boundedness(ctx: &Ctx, agg: &mut Agg) -> Value {
    use crate::common::par::run_with_timeout;
    use crate::common::vclock::{self, VClock};
    use clock_bound_client::ClockBoundClient;
    use clock_bound_shm::{ShmWrite, ShmWriter};
    use std::os::unix::fs::FileExt;
    const S: i128 = 1_000_000_000;
    let dir = thread_dir(&ctx.scratch());
    let rec0 = Rec { as_of_s: 5000, as_of_ns: 0, va_s: 6000, va_ns: 0, bound: 10_000, drift: 1000, reserved: 0, status: 1 };
    // (name, mutation applied after the client has attached, calls made before it, monotonic reading, injected clock errno)
    let situations: Vec<(&str, &str, u32, i128, i32)> = vec![
        ("valid record, one second old", "none", 0, 5001 * S, 0),
        ("as-of one hour ahead of the monotonic clock", "none", 0, 1400 * S, 0),
        ("as-of 2 ns ahead of the monotonic clock", "none", 0, 5000 * S - 2, 0),
        ("past void-after", "none", 0, 7000 * S, 0),
        ("update left in flight by a dead daemon, first call", "begin-update", 0, 5001 * S, 0),
        ("update left in flight by a dead daemon, after a successful call", "begin-update", 1, 5001 * S, 0),
        ("segment wiped by a daemon that died before re-initialising it", "wipe", 1, 5001 * S, 0),
        ("a published record with a drift of 2e9 ppb", "publish-malformed", 1, 5001 * S, 0),
        ("a published record whose as-of is ahead of the clock, after a successful call", "publish-future", 1, 5001 * S, 0),
        ("clock_gettime fails", "none", 1, 5001 * S, libc::EINVAL),
    ];
    let real_ns: i128 = 1_700_000_000 * S + 5;
    let mutate = |what: &str, path: &std::path::Path, w: &mut ShmWriter| -> Result<(), String> {
        let file = std::fs::OpenOptions::new().read(true).write(true).open(path).map_err(|e| e.to_string())?;
        match what {
            "begin-update" => {
                let mut g = [0u8; 2];
                file.read_exact_at(&mut g, 14).map_err(|e| e.to_string())?;
                let gen = u16::from_ne_bytes(g);
                file.write_all_at(&(gen | 1).to_ne_bytes(), 14).map_err(|e| e.to_string())?;
                file.write_all_at(&[0x11u8; 24], 16).map_err(|e| e.to_string())?;
            }
            "wipe" => file.write_all_at(&[0u8; 60], 12).map_err(|e| e.to_string())?,
            "publish-malformed" => w.write(&Rec { drift: 2_000_000_000, ..rec0 }.to_ceb()),
            "publish-future" => w.write(&Rec { as_of_s: 9000, va_s: 10_000, ..rec0 }.to_ceb()),
            _ => {}
        }
        Ok(())
    };
    let mut results = vec![];
    // the Rust client
    for (i, (name, what, calls_before, mono_ns, fail)) in situations.iter().enumerate() {
        let path = dir.join(format!("cl-{i}"));
        let r = run_with_timeout(10, || {
            let _ = std::fs::remove_file(&path);
            let mut w = ShmWriter::new(&path).expect("writer");
            w.write(&rec0.to_ceb());
            let mut cl = match ClockBoundClient::new_with_path(path.to_str().unwrap()) {
                Ok(c) => c,
                Err(e) => return json!({"open": format!("{:?}", e.kind)}),
            };
            vclock::arm(VClock { real_ns, mono_ns: 5001 * S, auto_advance_ns: 0, fail_errno: 0, fail_clock: -1 });
            for _ in 0..*calls_before {
                let _ = cl.now();
            }
            if let Err(e) = mutate(what, &path, &mut w) {
                return json!({"setup": e});
            }
            vclock::arm(VClock { real_ns, mono_ns: *mono_ns, auto_advance_ns: 0, fail_errno: *fail, fail_clock: -1 });
            let r = cl.now();
            vclock::disarm();
            json!({"now": match r { Ok(n) => format!("ok {:?}", n.clock_status), Err(e) => format!("err {:?}", e.kind) }})
        });
        match r {
            Ok(v) => results.push(json!({"library": "Rust client", "situation": name, "returned": v})),
            Err(e) if e == "timeout" => {
                agg.add("C18:client-library-call-does-not-return".into(), 0, format!("ClockBoundClient::now() did not return within 10 s of real time (virtual clock standing still, no daemon) in the situation: {name}"), json!({"engine": "seqmc", "directed": "client library boundedness", "library": "Rust client", "situation": name, "calls": []}));
                results.push(json!({"library": "Rust client", "situation": name, "returned": "NEVER"}));
            }
            Err(e) => machinery_failure(&format!("client-library phase, {name}: {e}")),
        }
    }
    // the C library (if the hook-free artefacts are there: ./check builds them for this property)
    let mut c_note = json!("run");
    match crate::gridmc::abi::build_c(ctx, false) {
        Err(e) => c_note = json!(format!("skipped: {}", e.lines().next().unwrap_or(""))),
        Ok(bin) => {
            for (i, (name, what, calls_before, mono_ns, fail)) in situations.iter().enumerate() {
                let path = dir.join(format!("c-{i}"));
                let _ = std::fs::remove_file(&path);
                let mut w = ShmWriter::new(&path).expect("writer");
                w.write(&rec0.to_ceb());
                let mut c = match crate::gridmc::abi::start_c(&bin, "libclockbound.so") {
                    Ok(c) => c,
                    Err(e) => machinery_failure(&e),
                };
                let mut run = || -> Result<String, String> {
                    if *fail != 0 {
                        // the N command opens, injects the clock failure and calls
                        return c.ask(&format!("N {} {} {} {} {} {} -1", path.display(), real_ns.div_euclid(S), real_ns.rem_euclid(S), mono_ns.div_euclid(S), mono_ns.rem_euclid(S), fail));
                    }
                    let o = c.ask(&format!("P 1 {}", path.display()))?;
                    if o != "open ok" {
                        return Ok(o);
                    }
                    for _ in 0..*calls_before {
                        c.ask(&format!("Q 1 {} {} 5001 0", real_ns.div_euclid(S), real_ns.rem_euclid(S)))?;
                    }
                    mutate(what, &path, &mut w)?;
                    c.ask(&format!("Q 1 {} {} {} {}", real_ns.div_euclid(S), real_ns.rem_euclid(S), mono_ns.div_euclid(S), mono_ns.rem_euclid(S)))
                };
                match run() {
                    Ok(l) => results.push(json!({"library": "C library", "situation": name, "returned": l})),
                    Err(e) if e.contains("did not return within") => {
                        agg.add("C18:client-library-call-does-not-return".into(), 0, format!("{e}, in the situation: {name}"), json!({"engine": "seqmc", "directed": "client library boundedness", "library": "C library", "situation": name, "calls": []}));
                        results.push(json!({"library": "C library", "situation": name, "returned": "NEVER"}));
                    }
                    Err(e) => machinery_failure(&format!("client-library phase (C), {name}: {e}")),
                }
                c.finish();
                drop(w);
                close_leaked_fds(&path);
            }
        }
    }
    // opening what a daemon left that died (or is stopped) inside the creation of its segment: the first 0..72 bytes
    // of a segment - with whatever errno an earlier, unrelated call left in the calling thread (EINTR after an
    // interrupted sleep, EAGAIN after a non-blocking read: successful calls never clear it). The open must come back.
    {
        let full = valid_file(2, &rec0);
        let c_bin = crate::gridmc::abi::build_c(ctx, false).ok();
        for len in [0usize, 4, 8, 12, 14, 15, 16, 40, 71, 72] {
            for stale in [0i32, libc::EINTR, libc::EAGAIN] {
                let path = dir.join(format!("open-{len}-{stale}"));
                let _ = std::fs::write(&path, &full[..len]);
                let name = format!("open of the first {len} bytes of a segment, errno of the calling thread {stale} before the call");
                let r = run_with_timeout(10, || {
                    errno::set_errno(errno::Errno(stale));
                    match ClockBoundClient::new_with_path(path.to_str().unwrap()) {
                        Ok(_) => json!({"open": "ok"}),
                        Err(e) => json!({"open": format!("{:?}", e.kind)}),
                    }
                });
                match r {
                    Ok(v) => results.push(json!({"library": "Rust client", "situation": name, "returned": v})),
                    Err(e) if e == "timeout" => {
                        agg.add("C18:client-library-call-does-not-return".into(), 0, format!("ClockBoundClient::new_with_path() did not return within 10 s: {name}"), json!({"engine": "seqmc", "directed": "client library boundedness", "library": "Rust client", "situation": name, "calls": []}));
                        results.push(json!({"library": "Rust client", "situation": name, "returned": "NEVER"}));
                    }
                    Err(e) => machinery_failure(&format!("client-library phase, {name}: {e}")),
                }
                if let Some(bin) = &c_bin {
                    let mut c = match crate::gridmc::abi::start_c(bin, "libclockbound.so") {
                        Ok(c) => c,
                        Err(e) => machinery_failure(&e),
                    };
                    match c.ask(&format!("E {stale}")).and_then(|_| c.ask(&format!("O {}", path.display()))) {
                        Ok(l) => results.push(json!({"library": "C library", "situation": name, "returned": l})),
                        Err(e) if e.contains("did not return within") => {
                            agg.add("C18:client-library-call-does-not-return".into(), 0, format!("{e}: {name}"), json!({"engine": "seqmc", "directed": "client library boundedness", "library": "C library", "situation": name, "calls": []}));
                            results.push(json!({"library": "C library", "situation": name, "returned": "NEVER"}));
                        }
                        Err(e) => machinery_failure(&format!("client-library phase (C), {name}: {e}")),
                    }
                    c.finish();
                }
            }
        }
    }
    // the same, counted: three million consecutive calls by one long-lived client in the situations in which a
    // call answers from its cache (what a client polling at 1 kHz makes in under an hour of daemon outage)
    let many: i64 = 3_000_000;
    for (name, what) in [("update left in flight by a dead daemon", "begin-update"), ("segment wiped by a daemon that died before re-initialising it", "wipe"), ("nothing published since the last call", "none")] {
        let path = dir.join(format!("many-{what}"));
        let r = run_with_timeout(120, || {
            use clock_bound_shm::ShmReader;
            let _ = std::fs::remove_file(&path);
            let mut w = ShmWriter::new(&path).expect("writer");
            w.write(&rec0.to_ceb());
            let cpath = std::ffi::CString::new(path.to_str().unwrap()).unwrap();
            let mut rd = ShmReader::new(&cpath).expect("reader");
            let mut cl = ClockBoundClient::new_with_path(path.to_str().unwrap()).expect("client");
            vclock::arm(VClock { real_ns, mono_ns: 5001 * S, auto_advance_ns: 0, fail_errno: 0, fail_clock: -1 });
            let _ = rd.snapshot();
            let _ = cl.now();
            if let Err(e) = mutate(what, &path, &mut w) {
                return json!({"setup": e});
            }
            let mut ok = 0i64;
            for _ in 0..many {
                if rd.snapshot().is_ok() {
                    ok += 1;
                }
            }
            let mut ok2 = 0i64;
            for _ in 0..many {
                if cl.now().is_ok() {
                    ok2 += 1;
                }
            }
            vclock::disarm();
            json!({"reader_calls_ok": ok, "client_calls_ok": ok2})
        });
        match r {
            Ok(v) => results.push(json!({"library": "Rust reader and client", "situation": format!("{many} consecutive calls: {name}"), "returned": v})),
            Err(e) if e == "timeout" => {
                agg.add("C18:client-library-call-does-not-return".into(), 0, format!("{many} consecutive snapshot() / now() calls by one client did not complete within 120 s of real time (one of them does not return) in the situation: {name}"), json!({"engine": "seqmc", "directed": "client library boundedness", "library": "Rust reader and client", "situation": format!("{many} consecutive calls: {name}"), "calls": []}));
                results.push(json!({"library": "Rust reader and client", "situation": format!("{many} consecutive calls: {name}"), "returned": "NEVER"}));
            }
            Err(e) => machinery_failure(&format!("client-library phase, many calls, {name}: {e}")),
        }
        if let Ok(bin) = crate::gridmc::abi::build_c(ctx, false) {
            let pathc = dir.join(format!("many-c-{what}"));
            let _ = std::fs::remove_file(&pathc);
            let mut w = ShmWriter::new(&pathc).expect("writer");
            w.write(&rec0.to_ceb());
            let mut c = match crate::gridmc::abi::start_c(&bin, "libclockbound.so") {
                Ok(c) => c,
                Err(e) => machinery_failure(&e),
            };
            let mut run = || -> Result<String, String> {
                let o = c.ask(&format!("P 1 {}", pathc.display()))?;
                if o != "open ok" {
                    return Ok(o);
                }
                c.ask(&format!("Q 1 {} {} 5001 0", real_ns.div_euclid(S), real_ns.rem_euclid(S)))?;
                mutate(what, &pathc, &mut w)?;
                c.ask(&format!("L 1 {many} {} {} 5001 0", real_ns.div_euclid(S), real_ns.rem_euclid(S)))
            };
            match run() {
                Ok(l) => results.push(json!({"library": "C library", "situation": format!("{many} consecutive calls: {name}"), "returned": l})),
                Err(e) if e.contains("did not return within") => {
                    agg.add("C18:client-library-call-does-not-return".into(), 0, format!("{e}, in the situation: {many} consecutive calls, {name}"), json!({"engine": "seqmc", "directed": "client library boundedness", "library": "C library", "situation": format!("{many} consecutive calls: {name}"), "calls": []}));
                    results.push(json!({"library": "C library", "situation": format!("{many} consecutive calls: {name}"), "returned": "NEVER"}));
                }
                Err(e) => machinery_failure(&format!("client-library phase (C), many calls, {name}: {e}")),
            }
            c.finish();
            drop(w);
            close_leaked_fds(&pathc);
        }
    }
    // what a call leaves behind when it gives up: a stand-in daemon that never pauses (a thread of the C program bumping
    // the generation as fast as it can) makes clockbound_now exhaust its retry budget; once the "daemon" has stopped,
    // the next calls on the same context must return
    if let Ok(bin) = crate::gridmc::abi::build_c(ctx, false) {
        let path = dir.join("gave-up-c");
        let _ = std::fs::remove_file(&path);
        let mut w = ShmWriter::new(&path).expect("writer");
        w.write(&rec0.to_ceb());
        let mut c = match crate::gridmc::abi::start_c(&bin, "libclockbound.so") {
            Ok(c) => c,
            Err(e) => machinery_failure(&e),
        };
        let name = "after a call that exhausted its retry budget on an update that never ended";
        let mut run = || -> Result<(String, String), String> {
            let o = c.ask(&format!("P 1 {}", path.display()))?;
            if o != "open ok" {
                return Ok((o, String::new()));
            }
            let wres = c.ask(&format!("W 1 {} 4000 {} {} 5001 0", path.display(), real_ns.div_euclid(S), real_ns.rem_euclid(S)))?;
            let after = c.ask(&format!("L 1 3 {} {} 5001 0", real_ns.div_euclid(S), real_ns.rem_euclid(S)))?;
            Ok((wres, after))
        };
        match run() {
            Ok((wres, after)) => results.push(json!({"library": "C library", "situation": name, "provocation": wres, "returned": after})),
            Err(e) if e.contains("did not return within") => {
                agg.add("C18:client-library-call-does-not-return".into(), 0, format!("{e}, in the situation: {name}"), json!({"engine": "seqmc", "directed": "client library boundedness", "library": "C library", "situation": name, "calls": []}));
                results.push(json!({"library": "C library", "situation": name, "returned": "NEVER"}));
            }
            Err(e) => machinery_failure(&format!("client-library phase (C), {name}: {e}")),
        }
        c.finish();
        drop(w);
        close_leaked_fds(&path);
    }
    json!({"kind": "directed (each situation once per library, virtual clock standing still)", "situations": situations.len(), "consecutive_calls_per_counted_situation": many, "c_library": c_note, "results": results})
}

// ---------------------------------------------------------------------------------------------
// C11: the generation protocol on the writer trace, for all 65536 start values

fn c11_oracles(w: &Work, agg: &mut Agg, succ: &mut Vec<(u16, bool, u16, bool)>) {
    let t = &w.trace;
    let doc = || json!({"engine": "seqmc-writer", "scenario": w.sc.json(), "calls": []});
    let mut published = matches!(w.sc.init, Init::Valid(_));
    // once the segment has been published to, generation 0 must never be visible again - at any
    // position, including the start-up of a restarted writer (not only inside write() calls)
    for p in 1..=t.len() {
        let was_published = matches!(w.sc.init, Init::Valid(_)) || t.spans.iter().any(|s| s.end.map(|e| e < p).unwrap_or(false));
        if was_published && t.gen_at(p).unwrap_or(0) == 0 {
            agg.add("C11:generation-zero".into(), 0, format!("after the segment had been published to, generation 0 (or no generation field at all) is visible at trace position {p} (event {:?}, incarnation {})", t.events[p as usize - 1].kind, t.events[p as usize - 1].inc), doc());
            break;
        }
    }
    for sp in &t.spans {
        let g0 = t.gen_at(sp.begin).unwrap_or(0);
        // every position strictly inside the update: generation odd
        let last = sp.end.unwrap_or_else(|| t.incs[sp.inc].end);
        for p in sp.begin + 1..=last {
            let g = t.gen_at(p).unwrap_or(0);
            let inside = sp.end.map(|e| p < e).unwrap_or(true);
            if inside && g % 2 == 0 {
                agg.add("C11:even-during-update".into(), 0, format!("update from generation {g0}: at event {} of the update the generation in the segment is {g} (even) while the update is still in flight", p - sp.begin), doc());
                break;
            }
            if g == 0 && (published || p > sp.begin) {
                agg.add("C11:generation-zero".into(), 0, format!("update from generation {g0}: generation 0 is visible at event {}", p - sp.begin), doc());
                break;
            }
        }
        // the record is only modified while the generation is odd
        for p in sp.begin + 1..=last {
            if let EvKind::Data { .. } = t.events[p as usize - 1].kind {
                let before = t.gen_at(p - 1).unwrap_or(0);
                if before % 2 == 0 {
                    agg.add("C11:record-modified-while-even".into(), 0, format!("update from generation {g0}: the record is written while the generation is {before} (even)"), doc());
                    break;
                }
            }
        }
        if let Some(e) = sp.end {
            let g1 = t.gen_at(e).unwrap_or(0);
            if g1 % 2 == 1 || g1 == 0 {
                agg.add("C11:not-even-after-update".into(), 0, format!("update from generation {g0} completed with generation {g1}"), doc());
            } else if g1 == g0 {
                agg.add("C11:unchanged-after-update".into(), 0, format!("update from generation {g0} completed with the same generation"), doc());
            }
            let natural = if g0 % 2 == 0 { g0 as u32 + 2 } else { g0 as u32 + 1 };
            if natural > 65535 && g1 != 2 {
                agg.add("C11:wrap-not-at-2".into(), 0, format!("update from generation {g0} wrapped to {g1}; the protocol document says it continues at 2"), doc());
            }
            succ.push((g0, false, g1, false));
            published = true;
        } else {
            let g1 = t.gen_at(last).unwrap_or(0);
            succ.push((g0, false, g1, last > sp.begin));
        }
    }
}

fn run_c11(ctx: &Ctx) -> i32 {
    let base = ctx.scratch();
    // all 65535 non-zero start generations x {complete, crash after the first store, crash after the copy} (+ restart and a full update)
    let chunks = 2;
    let probe = record_trace(&Scenario { init: Init::Valid(2), incs: vec![(1, None)], chunks, family: 0, file_times: 0 }, &thread_dir(&base)).unwrap_or_else(|e| machinery_failure(&e));
    let n_ev = probe.len(); // version store + events of one write()
    let step = ctx.opt_usize("gen_step").unwrap_or(1).max(1);
    let gens: Vec<u32> = (1..65536u32).step_by(step).collect();
    let parts = par::fork_reduce(
        gens.len(),
        |c| (Agg::new(), std::collections::BTreeSet::<(u16, bool, u16, bool)>::new(), 0u64, { let d = base.join(format!("p{c}")); let _ = std::fs::create_dir_all(&d); d }),
        |acc, i| {
            let g = gens[i] as u16;
            let dir = acc.3.clone();
            let mut succ = vec![];
            // three consecutive updates by one writer instance (state a writer carries from one update to the
            // next must not matter), from every start value; and a crash at every point of an update followed
            // by a restart and three more updates
            let mut scs = vec![Scenario { init: Init::Valid(g), incs: vec![(3, None)], chunks, family: 0, file_times: 0 }];
            if g % 8191 == 2 {
                // (every 8191st start value) a clean restart on a file whose time stamps are old / pre-boot / in the future
                for ft in [1u8, 2, 3, 4, 5, 6, 7] {
                    scs.push(Scenario { init: Init::Valid(g), incs: vec![(1, None), (2, None)], chunks, family: 0, file_times: ft });
                }
            }
            for c in 1..n_ev {
                scs.push(Scenario { init: Init::Valid(g), incs: vec![(1, Some(c)), (3, None)], chunks, family: 0, file_times: 0 });
            }
            for sc in scs {
                match record_trace(&sc, &dir) {
                    Ok(trace) => {
                        let w = Work { sc, trace };
                        c11_oracles(&w, &mut acc.0, &mut succ);
                        acc.2 += 1;
                        acc.0.stats.transitions += w.trace.len() as u64;
                        if g == 65534 && acc.0.samples.len() < 3 {
                            acc.0.samples.push(json!({"scenario": w.sc.json(), "generation_after_each_event": (0..=w.trace.len()).map(|p| w.trace.gen_at(p)).collect::<Vec<_>>()}));
                        }
                    }
                    Err(e) if e.contains("beyond the incarnation") => {}
                    Err(e) => machinery_failure(&format!("{e} (scenario {})", sc.json())),
                }
            }
            acc.1.extend(succ);
        },
        |acc| json!({"agg": acc.0.to_json(), "succ": acc.1.iter().map(|(a, b, c, d)| json!([a, b, c, d])).collect::<Vec<_>>(), "n": acc.2}),
    );
    let mut agg = Agg::new();
    let mut succ_all: BTreeMap<(u16, bool), Vec<(u16, bool)>> = BTreeMap::new();
    let mut traces = 0;
    for p in parts {
        agg.merge(Agg::from_json(&p["agg"]));
        traces += p["n"].as_u64().unwrap_or(0);
        for e in p["succ"].as_array().cloned().unwrap_or_default() {
            succ_all.entry((e[0].as_u64().unwrap() as u16, e[1].as_bool().unwrap())).or_default().push((e[2].as_u64().unwrap() as u16, e[3].as_bool().unwrap()));
        }
    }
    let long_run = long_sequential_run(ctx, "C11", &mut agg);
    // from a fresh (wiped) segment
    let fresh = record_all(
        with_crashes(&Scenario { init: Init::Absent, incs: vec![(2, None), (2, None)], chunks, family: 0, file_times: 0 }, &thread_dir(&base)),
        &base,
    );
    let mut succ = vec![];
    for w in &fresh {
        c11_oracles(w, &mut agg, &mut succ);
        traces += 1;
    }
    // closure: states reachable from the wiped segment under {complete update, crash + restart}
    let mut reach: std::collections::BTreeSet<(u16, bool)> = std::collections::BTreeSet::new();
    let mut todo = vec![(0u16, false)];
    for (g0, f0, g1, f1) in succ {
        succ_all.entry((g0, f0)).or_default().push((g1, f1));
    }
    let mut edges = 0u64;
    while let Some(s) = todo.pop() {
        if !reach.insert(s) {
            continue;
        }
        // an in-flight state (left by a crash) behaves like its idle counterpart at restart
        let key = (s.0, false);
        if let Some(ns) = succ_all.get(&key) {
            for n in ns {
                edges += 1;
                todo.push(*n);
            }
        }
    }
    for (g, inflight) in &reach {
        if *inflight && g % 2 == 0 {
            agg.add("C11:reachable-inflight-even".into(), 0, format!("reachable state: update in flight with even generation {g}"), json!({"engine": "seqmc-writer", "state": [g, inflight], "calls": []}));
        }
    }
    let coverage = cov(vec![
        ("states", json!(reach.len())),
        ("transitions", json!(edges)),
        ("traces_validated_against_impl", json!(traces)),
        ("samples", json!(agg.samples)),
        ("evaluations", json!(traces)),
        ("distinct_nontrivial", json!(gens.len())),
        ("rule", json!("one writer trace per (start generation, crash point); every start generation 1..65535 is distinct; the successor relation of the closure is computed by the real ShmWriter::write")),
        ("start_generations", json!(gens.len())),
        ("crash_points_per_update", json!(n_ev - 1)),
        ("long_sequential_run", long_run),
        ("writer_events_checked", json!(agg.stats.transitions)),
        ("violation_counts_by_class", json!(agg.counts)),
        ("exhaustive", json!(step == 1)),
    ]);
    let violations = agg.best.into_values().map(|(_, v)| v).collect();
    finish(ctx, Outcome { level: "model_checking", coverage, assumptions: vec!["a conforming third-party reader observes the generation field of the file; file snapshots are taken after every intercepted writer event".into(), "crash = the writer process stops between two intercepted events; restart = a new ShmWriter::new on the same file".into()], violations })
}
