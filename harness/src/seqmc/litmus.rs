//! Self-test of the memory-model simulator (`ra.rs`) on litmus programs whose allowed outcome sets
//! under C11 are known from the literature. Run before every seqmc check; a mismatch is a machinery
//! failure (exit 2), never a verdict. DESIGN.md section 11.1.

use super::ra::{Mem, Ord, TView, MAXLOC};
use std::collections::BTreeSet;

#[derive(Clone, Copy, Debug)]
pub enum Op {
    St(usize, u8, Ord),
    Ld(usize, usize, Ord), // (register, location, ordering)
    Rmw(usize, u8, Ord),   // fetch_add(location, value)
    Fence(Ord),
}

pub struct Litmus {
    pub name: &'static str,
    pub nloc: usize,
    pub threads: Vec<Vec<Op>>,
    pub nregs: usize,
    /// projection of the final registers and whether the outcome set must equal `expected`
    pub expected: BTreeSet<Vec<u8>>,
    /// optional filter applied to outcomes before comparison (e.g. "the seqlock reader accepted")
    pub filter: Option<fn(&[u8]) -> bool>,
}

#[derive(Clone)]
struct St {
    mem: Mem,
    tv: Vec<TView>,
    pc: Vec<usize>,
    regs: Vec<u8>,
}

fn explore(l: &Litmus, s: St, out: &mut BTreeSet<Vec<u8>>, execs: &mut u64) {
    let mut any = false;
    for t in 0..l.threads.len() {
        if s.pc[t] >= l.threads[t].len() {
            continue;
        }
        any = true;
        match l.threads[t][s.pc[t]] {
            Op::St(loc, v, o) => {
                let mut n = s.clone();
                n.tv[t].store(&mut n.mem, loc, vec![v], o, 0);
                n.pc[t] += 1;
                explore(l, n, out, execs);
            }
            Op::Rmw(loc, v, o) => {
                let mut n = s.clone();
                let old = n.mem.latest(loc).map(|m| m.val[0]).unwrap_or(0);
                n.tv[t].rmw(&mut n.mem, loc, vec![old.wrapping_add(v)], o, 0);
                n.pc[t] += 1;
                explore(l, n, out, execs);
            }
            Op::Fence(o) => {
                let mut n = s.clone();
                n.tv[t].fence(o);
                n.pc[t] += 1;
                explore(l, n, out, execs);
            }
            Op::Ld(r, loc, o) => {
                let lo = s.tv[t].floor(loc) as usize;
                for ts in lo..s.mem.msgs[loc].len() {
                    let mut n = s.clone();
                    let m = n.mem.msgs[loc][ts].clone();
                    n.tv[t].apply_load(loc, ts as u32, &m.view, o);
                    n.regs[r] = m.val[0];
                    n.pc[t] += 1;
                    explore(l, n, out, execs);
                }
            }
        }
    }
    if !any {
        *execs += 1;
        if l.filter.map(|f| f(&s.regs)).unwrap_or(true) {
            out.insert(s.regs.clone());
        }
    }
}

pub fn outcomes(l: &Litmus) -> (BTreeSet<Vec<u8>>, u64) {
    let mut mem = Mem::new(l.nloc);
    for loc in 0..l.nloc {
        mem.msgs[loc].push(super::ra::Msg { val: vec![0], view: [0; MAXLOC], ev: 0 });
    }
    let s = St { mem, tv: vec![TView::new([0; MAXLOC]); l.threads.len()], pc: vec![0; l.threads.len()], regs: vec![0; l.nregs] };
    let mut out = BTreeSet::new();
    let mut execs = 0;
    explore(l, s, &mut out, &mut execs);
    (out, execs)
}

fn set(v: &[&[u8]]) -> BTreeSet<Vec<u8>> {
    v.iter().map(|x| x.to_vec()).collect()
}

fn seqlock(writer_fence: bool, reader_fence: bool, gen_ord_w: Ord, gen_ord_r: Ord) -> Vec<Vec<Op>> {
    use Op::*;
    // locations: 0 = generation, 1 = d1, 2 = d2 ; registers: r0 = g before, r1 = d1, r2 = d2, r3 = g after
    let mut w = vec![St(0, 1, gen_ord_w)];
    if writer_fence {
        w.push(Fence(Ord::Release));
    }
    w.extend([St(1, 1, Ord::Relaxed), St(2, 1, Ord::Relaxed), St(0, 2, gen_ord_w)]);
    let mut r = vec![Ld(0, 0, gen_ord_r), Ld(1, 1, Ord::Relaxed), Ld(2, 2, Ord::Relaxed)];
    if reader_fence {
        r.push(Fence(Ord::Acquire));
    }
    r.push(Ld(3, 0, gen_ord_r));
    vec![w, r]
}

fn seqlock2(fences: bool) -> Vec<Vec<Op>> {
    use Op::*;
    let (rlx, acq, rel) = (Ord::Relaxed, Ord::Acquire, Ord::Release);
    let mut w = vec![];
    for k in 1..=2u8 {
        w.push(St(0, 2 * k - 1, rel));
        if fences {
            w.push(Fence(rel));
        }
        w.extend([St(1, k, rlx), St(2, k, rlx), St(0, 2 * k, rel)]);
    }
    let mut r = vec![Ld(0, 0, acq), Ld(1, 1, rlx), Ld(2, 2, rlx)];
    if fences {
        r.push(Fence(acq));
    }
    r.push(Ld(3, 0, acq));
    vec![w, r]
}

fn accepted_torn(regs: &[u8]) -> bool {
    accepted(regs) && regs[1] != regs[2]
}

fn accepted(regs: &[u8]) -> bool {
    regs[0] == regs[3] && regs[0] % 2 == 0
}

pub fn suite() -> Vec<Litmus> {
    use Op::*;
    let (rlx, acq, rel) = (Ord::Relaxed, Ord::Acquire, Ord::Release);
    let consistent = set(&[&[0, 0, 0, 0], &[2, 1, 1, 2]]);
    // one update only: a reader that acquires generation 2 is forced to see both data stores, so the
    // accepted-but-torn outcomes all have generation 0 (two updates are needed for the other side;
    // the engine finds those on the real code)
    let torn = set(&[&[0, 0, 0, 0], &[0, 0, 1, 0], &[0, 1, 0, 0], &[0, 1, 1, 0], &[2, 1, 1, 2]]);
    vec![
        Litmus { name: "MP release/acquire", nloc: 2, nregs: 2, filter: None,
            threads: vec![vec![St(0, 1, rlx), St(1, 1, rel)], vec![Ld(0, 1, acq), Ld(1, 0, rlx)]],
            expected: set(&[&[0, 0], &[0, 1], &[1, 1]]) },
        Litmus { name: "MP relaxed", nloc: 2, nregs: 2, filter: None,
            threads: vec![vec![St(0, 1, rlx), St(1, 1, rlx)], vec![Ld(0, 1, rlx), Ld(1, 0, rlx)]],
            expected: set(&[&[0, 0], &[0, 1], &[1, 0], &[1, 1]]) },
        Litmus { name: "MP fences on both sides", nloc: 2, nregs: 2, filter: None,
            threads: vec![vec![St(0, 1, rlx), Fence(rel), St(1, 1, rlx)], vec![Ld(0, 1, rlx), Fence(acq), Ld(1, 0, rlx)]],
            expected: set(&[&[0, 0], &[0, 1], &[1, 1]]) },
        Litmus { name: "MP fence on the writer side only", nloc: 2, nregs: 2, filter: None,
            threads: vec![vec![St(0, 1, rlx), Fence(rel), St(1, 1, rlx)], vec![Ld(0, 1, rlx), Ld(1, 0, rlx)]],
            expected: set(&[&[0, 0], &[0, 1], &[1, 0], &[1, 1]]) },
        Litmus { name: "MP fence on the reader side only", nloc: 2, nregs: 2, filter: None,
            threads: vec![vec![St(0, 1, rlx), St(1, 1, rlx)], vec![Ld(0, 1, rlx), Fence(acq), Ld(1, 0, rlx)]],
            expected: set(&[&[0, 0], &[0, 1], &[1, 0], &[1, 1]]) },
        Litmus { name: "MP release store, acquire fence", nloc: 2, nregs: 2, filter: None,
            threads: vec![vec![St(0, 1, rlx), St(1, 1, rel)], vec![Ld(0, 1, rlx), Fence(acq), Ld(1, 0, rlx)]],
            expected: set(&[&[0, 0], &[0, 1], &[1, 1]]) },
        Litmus { name: "CoRR (read-read coherence)", nloc: 1, nregs: 2, filter: None,
            threads: vec![vec![St(0, 1, rlx), St(0, 2, rlx)], vec![Ld(0, 0, rlx), Ld(1, 0, rlx)]],
            expected: set(&[&[0, 0], &[0, 1], &[0, 2], &[1, 1], &[1, 2], &[2, 2]]) },
        Litmus { name: "release sequence continued by an RMW", nloc: 2, nregs: 2, filter: Some(|r| r[0] == 2),
            threads: vec![vec![St(0, 1, rlx), St(1, 1, rel), Rmw(1, 1, rlx)], vec![Ld(0, 1, acq), Ld(1, 0, rlx)]],
            expected: set(&[&[2, 1]]) },
        Litmus { name: "release sequence broken by a plain relaxed store (C++20)", nloc: 2, nregs: 2, filter: Some(|r| r[0] == 2),
            threads: vec![vec![St(0, 1, rlx), St(1, 1, rel), St(1, 2, rlx)], vec![Ld(0, 1, acq), Ld(1, 0, rlx)]],
            expected: set(&[&[2, 0], &[2, 1]]) },
        Litmus { name: "seqlock, release/acquire generation accesses, no fences (clock-bound today)", nloc: 3, nregs: 4, filter: Some(accepted),
            threads: seqlock(false, false, rel, acq), expected: torn.clone() },
        Litmus { name: "seqlock, writer-side release fence only", nloc: 3, nregs: 4, filter: Some(accepted),
            threads: seqlock(true, false, rel, acq), expected: torn.clone() },
        Litmus { name: "seqlock, reader-side acquire fence only", nloc: 3, nregs: 4, filter: Some(accepted),
            threads: seqlock(false, true, rel, acq), expected: torn.clone() },
        Litmus { name: "seqlock, both fences (Boehm MSPC'12)", nloc: 3, nregs: 4, filter: Some(accepted),
            threads: seqlock(true, true, rel, acq), expected: consistent.clone() },
        Litmus { name: "seqlock, two updates, no fences: accepted blends", nloc: 3, nregs: 4, filter: Some(accepted_torn),
            threads: seqlock2(false),
            expected: set(&[&[0, 0, 1, 0], &[0, 0, 2, 0], &[0, 1, 0, 0], &[0, 1, 2, 0], &[0, 2, 0, 0], &[0, 2, 1, 0], &[2, 1, 2, 2], &[2, 2, 1, 2]]) },
        Litmus { name: "seqlock, two updates, both fences: no accepted blend", nloc: 3, nregs: 4, filter: Some(accepted_torn),
            threads: seqlock2(true), expected: BTreeSet::new() },
        Litmus { name: "seqlock, both fences, relaxed generation accesses", nloc: 3, nregs: 4, filter: Some(accepted),
            threads: seqlock(true, true, rlx, rlx),
            // without a release on the final generation store the data is not published with it
            expected: set(&[&[0, 0, 0, 0], &[2, 0, 0, 2], &[2, 0, 1, 2], &[2, 1, 0, 2], &[2, 1, 1, 2]]) },
    ]
}

/// Returns Err(description) if the simulator disagrees with an expected outcome set.
pub fn self_test() -> Result<(usize, u64), String> {
    let mut total = 0;
    let s = suite();
    for l in &s {
        let (got, execs) = outcomes(l);
        total += execs;
        if got != l.expected {
            return Err(format!("litmus '{}': simulator outcomes {:?} differ from the expected {:?}", l.name, got, l.expected));
        }
    }
    Ok((s.len(), total))
}

fn ord_name(o: Ord) -> &'static str {
    match o {
        Ord::Relaxed => "rlx",
        Ord::Acquire => "acq",
        Ord::Release => "rel",
        Ord::AcqRel => "acqrel",
        Ord::SeqCst => "sc",
    }
}

/// The suite in the line format litmus-loom reads (one source of truth for both sides).
pub fn dump() -> String {
    let mut out = String::new();
    for l in suite() {
        out += &format!("P {}|{}|{}\n", l.name, l.nloc, l.nregs);
        for t in &l.threads {
            out += "T\n";
            for op in t {
                out += &match op {
                    Op::St(loc, v, o) => format!("st {loc} {v} {}\n", ord_name(*o)),
                    Op::Ld(r, loc, o) => format!("ld {r} {loc} {}\n", ord_name(*o)),
                    Op::Rmw(loc, v, o) => format!("rmw {loc} {v} {}\n", ord_name(*o)),
                    Op::Fence(o) => format!("fence {}\n", ord_name(*o)),
                };
            }
        }
    }
    out
}

/// Compare loom's output (lines `R name|iterations|seconds|r,r;r,r`) with the simulator's full
/// (unfiltered) outcome sets. Returns a JSON report; Err if loom produced an outcome the simulator
/// does not allow.
pub fn compare_with_loom(loom_out: &str) -> Result<serde_json::Value, String> {
    let mut rep = vec![];
    for line in loom_out.lines() {
        let rest = match line.strip_prefix("R ") {
            Some(r) => r,
            None => continue,
        };
        let f: Vec<&str> = rest.split('|').collect();
        if f.len() < 4 {
            continue;
        }
        let l = match suite().into_iter().find(|l| l.name == f[0]) {
            Some(l) => l,
            None => continue,
        };
        let loom_set: BTreeSet<Vec<u8>> = f[3].split(';').filter(|s| !s.is_empty()).map(|s| s.split(',').map(|x| x.parse().unwrap_or(255)).collect()).collect();
        let unfiltered = Litmus { filter: None, expected: BTreeSet::new(), name: l.name, nloc: l.nloc, nregs: l.nregs, threads: l.threads.clone() };
        let (sim_set, _) = outcomes(&unfiltered);
        let extra: Vec<&Vec<u8>> = loom_set.difference(&sim_set).collect();
        if !extra.is_empty() {
            return Err(format!("litmus '{}': loom produces outcomes {:?} that the simulator does not allow (the simulator would be stronger than an independent implementation of the model)", l.name, extra));
        }
        rep.push(serde_json::json!({"program": l.name, "loom_iterations": f[1].parse::<u64>().unwrap_or(0), "loom_seconds": f[2].parse::<f64>().unwrap_or(0.0), "loom_outcomes": loom_set.len(), "simulator_outcomes": sim_set.len(), "equal": loom_set == sim_set}));
    }
    Ok(serde_json::json!(rep))
}
