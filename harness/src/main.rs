//! cbv — model-checking harness for aws/clock-bound. See /verif/DESIGN.md.
mod common;
mod gridmc;
mod histmc;
mod procmc;
mod threadmc;
mod seqmc;

use common::report::{machinery_failure, Ctx, Tier};
use std::path::PathBuf;

fn main() {
    let args: Vec<String> = std::env::args().skip(1).collect();
    if args.is_empty() {
        println!("usage: cbv <Cxx> [--tier quick|thorough] [--replay file] [--opt k=v]...");
        std::process::exit(2);
    }
    // die with whatever started us (./check, a timeout wrapper): workers die with us in turn (par.rs), so a killed
    // run leaves nothing spinning behind
    // SAFETY: plain prctl on the calling process
    unsafe { libc::prctl(libc::PR_SET_PDEATHSIG, libc::SIGKILL) };
    // Standard error is a device on which every write fails (what a full log disk or a vanished log collector
    // looks like): the harness reports on stdout only, and code under test that prints a diagnostic there must
    // not panic or die of it.
    // SAFETY: plain open/dup2 on our own descriptors
    unsafe {
        let fd = if std::env::var_os("VERIF_KEEP_STDERR").is_some() { -1 } else { libc::open(c"/dev/full".as_ptr(), libc::O_WRONLY) };
        if fd >= 0 {
            libc::dup2(fd, 2);
            libc::close(fd);
        }
    }
    // The daemon installs a tracing subscriber as the first thing in main(); with none installed the arguments
    // of its log statements are never evaluated, which would hide whatever they do. Same maximum level as the
    // daemon, output discarded, no timestamps (a timestamp would be a clock read of its own).
    tracing_subscriber::fmt().with_max_level(tracing::Level::DEBUG).without_time().with_writer(std::io::sink).init();
    if args[0] == "litmus-dump" {
        print!("{}", seqmc::litmus::dump());
        return;
    }
    if args[0] == "litmus-compare" {
        // stdin: output of litmus-loom; stdout: JSON report; exit 2 if loom allows more than the simulator
        let mut s = String::new();
        use std::io::Read;
        std::io::stdin().read_to_string(&mut s).unwrap();
        match seqmc::litmus::compare_with_loom(&s) {
            Ok(v) => {
                let mode = args.get(1).cloned().unwrap_or_else(|| "full".into());
                let all_equal = v.as_array().map(|a| a.iter().all(|r| r["equal"] == true)).unwrap_or(false);
                let doc = serde_json::json!({"loom": "0.7.2", "exploration": if mode == "bounded" { "LOOM_MAX_PREEMPTIONS=3" } else { "unbounded" }, "every_loom_outcome_allowed_by_the_simulator": true, "outcome_sets_equal_on_every_program": all_equal, "programs": v});
                println!("{}", serde_json::to_string_pretty(&doc).unwrap());
                return;
            }
            Err(e) => machinery_failure(&e),
        }
    }
    let prop = args[0].clone();
    let mut tier = match std::env::var("VERIF_TIER").as_deref() {
        Ok("thorough") => Tier::Thorough,
        _ => Tier::Quick,
    };
    let mut replay = None;
    let mut opts = vec![];
    let mut i = 1;
    while i < args.len() {
        match args[i].as_str() {
            "--tier" => {
                i += 1;
                tier = match args.get(i).map(|s| s.as_str()) {
                    Some("quick") => Tier::Quick,
                    Some("thorough") => Tier::Thorough,
                    _ => machinery_failure("--tier needs quick|thorough"),
                }
            }
            "--replay" => {
                i += 1;
                replay = Some(PathBuf::from(args.get(i).cloned().unwrap_or_default()));
            }
            "--opt" => {
                i += 1;
                let kv = args.get(i).cloned().unwrap_or_default();
                let (k, v) = kv.split_once('=').unwrap_or((&kv, ""));
                opts.push((k.to_string(), v.to_string()));
            }
            other => machinery_failure(&format!("unknown argument {other}")),
        }
        i += 1;
    }
    let ctx = Ctx {
        prop: prop.clone(),
        tier,
        seed: std::env::var("VERIF_SEED").ok().and_then(|s| s.parse().ok()).unwrap_or(0),
        t0: common::vclock::raw_now_s(),
        verif_dir: PathBuf::from(std::env::var("VERIF_DIR").unwrap_or_else(|_| "/verif".into())),
        repo_dir: PathBuf::from(std::env::var("VERIF_REPO").unwrap_or_else(|_| "/repo".into())),
        replay,
        opts,
    };
    // watchdog: a run that hangs is a machinery failure (exit 2), never a verdict and never a hang
    let cap_s: f64 = std::env::var("VERIF_WALL_CAP_S").ok().and_then(|s| s.parse().ok()).unwrap_or(match tier {
        Tier::Quick => 1800.0,
        Tier::Thorough => 6.0 * 3600.0,
    });
    let t0 = ctx.t0;
    let pname = prop.clone();
    std::thread::spawn(move || loop {
        crate::common::vclock::real_sleep(std::time::Duration::from_secs(2));
        if common::vclock::raw_now_s() - t0 > cap_s {
            println!("MACHINERY-FAILURE: {pname} exceeded its wall-clock cap of {cap_s} s (hang or runaway search)");
            std::process::exit(2);
        }
    });
    let code = match prop.as_str() {
        "C05" | "C06" | "C14" => gridmc::clientgrid::run(&ctx),
        "C07" => gridmc::boundgrid::run(&ctx),
        "C19" => procmc::run(&ctx),
        "C16" => gridmc::segfiles::run(&ctx),
        "C17" => gridmc::abi::run(&ctx),
        "C15" => threadmc::run(&ctx),
        "C01" => histmc::world::run(&ctx),
        "C08" | "C09" | "C10" | "C12" | "C13" => histmc::props::run(&ctx),
        "C02" | "C03" | "C04" | "C11" | "C18" => seqmc::props::run(&ctx),
        _ => machinery_failure(&format!("no engine for property {prop}")),
    };
    ctx.cleanup_scratch();
    std::process::exit(code);
}
