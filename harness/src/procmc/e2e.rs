//! End to end through the release binary: the daemon as it is started in production (`main()`: option
//! handling, the PHC's sysfs lookup, thread start-up), in a private mount namespace with
//!   - a tmpfs on /run (so /var/run/clockbound and /var/run/chrony are private),
//!   - a tmpfs over /sys/class/net holding one interface whose uevent names a PCI slot, and a tmpfs over
//!     /sys/bus/pci/devices holding that slot's `phc_error_bound` attribute (present, absent, appearing later),
//!   - a stand-in chronyd answering tracking requests on /var/run/chrony/chronyd.sock with wire bytes from
//!     the same builder the other engines use (reference id and leap status chosen by the scenario, the
//!     reference time one second before the real clock's reading).
//! Everything an in-process engine cannot see (what `main()` does before it calls into the library) is on this
//! path. The scenarios are few and take real seconds: they complement the exhaustive in-process checks, they
//! are not a sweep.

use crate::common::par::run_with_timeout;
use crate::common::report::Ctx;
use crate::histmc::pipeline::{encode_float, tracking_wire, TrackSpec};
use serde_json::{json, Value};
use std::path::Path;

pub const IFACE: &str = "cbvphc0";
pub const SLOT: &str = "0000:00:05.0";
pub const ID_PHC: u32 = 0x50484330; // "PHC0"
pub const ID_OTHER: u32 = 0x4e545031; // "NTP1"

#[derive(Clone, Debug)]
pub enum PhcFile {
    Absent,
    Value(i64),
    /// absent at start, created with this value after so many milliseconds
    AppearsAfter(u64, i64),
}

#[derive(Clone, Debug)]
pub struct Scenario {
    pub name: &'static str,
    pub args: Vec<String>,
    /// (reference id, leap status) of the stand-in chronyd; None: no chronyd at all
    pub chronyd: Option<(u32, u16)>,
    pub phc: PhcFile,
    /// what the segment path holds before the daemon starts (None: nothing, not even the directory)
    pub preexisting: Option<Vec<u8>>,
    pub observe_ms: u64,
    /// /var/run/clockbound exists as a regular file: the daemon cannot create its segment
    pub block_directory: bool,
    /// the stand-in chronyd answers this long after the request arrived
    pub chronyd_delay_ms: u64,
    /// delay of the reply to the k-th request (overrides chronyd_delay_ms; the last value repeats)
    pub reply_delays_ms: Vec<u64>,
    /// reply k carries root dispersion 0.01 s + k ms, so that the published bound tells which reply was used,
    /// and the observation lists when each request arrived
    pub tag_replies: bool,
    /// chronyd listens on its UDP command port (127.0.0.1:323, in a private network namespace) instead of the
    /// Unix socket
    pub udp_only: bool,
    /// the scenario expects Synchronized publications: on a slow or loaded machine the observation is extended
    /// (up to four times `observe_ms`) until this many have been seen
    pub wait_for_synchronized: u32,
    /// likewise for publications of any status
    pub wait_for_publications: u32,
    /// additional environment of the daemon (LD_PRELOAD of `shim()` and its CBV_SHIM_* switches)
    pub env: Vec<(String, String)>,
    /// 1: the daemon's stdout, 2: its stderr is a device on which every write fails (a full log disk, a log pipe
    /// whose reader is gone); the other stream is /dev/null. (With both failing the unmodified daemon dies at its
    /// first log line - tracing-subscriber reports a failed write on stderr with eprintln!, which panics when that
    /// fails too - whatever the segment holds; no listed property speaks about that, see DESIGN 10.3.)
    pub stdio_full: u8,
    /// interfaces without a device behind them (a bond, a bridge, `lo`): /sys/devices/virtual/net/<name> and the
    /// /sys/class/net/<name> link to it, as the kernel shows them
    pub virtual_ifaces: Vec<&'static str>,
}

impl Scenario {
    pub fn blank() -> Scenario {
        Scenario { name: "", args: vec![], chronyd: None, phc: PhcFile::Absent, preexisting: None, observe_ms: 1000, block_directory: false, chronyd_delay_ms: 0, reply_delays_ms: vec![], tag_replies: false, udp_only: false, wait_for_synchronized: 0, wait_for_publications: 0, env: vec![], stdio_full: 0, virtual_ifaces: vec![] }
    }
}

/// The daemon under observation dies with the process that started it (a scenario that is cut short by its time
/// limit must not leave a daemon behind).
fn daemon_command(bin: &str) -> std::process::Command {
    use std::os::unix::process::CommandExt;
    let mut c = std::process::Command::new(bin);
    // SAFETY: prctl is async-signal-safe; nothing else happens between fork and exec
    unsafe {
        c.pre_exec(|| {
            libc::prctl(libc::PR_SET_PDEATHSIG, libc::SIGKILL);
            Ok(())
        });
    }
    c
}

pub fn binary(ctx: &Ctx) -> String {
    std::env::var("PLAIN_TARGET").map(|t| format!("{t}/release/clockbound")).unwrap_or_else(|_| ctx.verif_dir.join("target/plain/release/clockbound").to_string_lossy().to_string())
}

/// harness/cabi/envshim.c as a shared object next to the plain build (see that file for what it can do)
pub fn shim(ctx: &Ctx) -> Result<String, String> {
    let plain = std::env::var("PLAIN_TARGET").unwrap_or_else(|_| ctx.verif_dir.join("target/plain").to_string_lossy().to_string());
    let out = format!("{plain}/envshim.so");
    let src = ctx.verif_dir.join("harness/cabi/envshim.c");
    let fresh = match (std::fs::metadata(&out).and_then(|m| m.modified()), std::fs::metadata(&src).and_then(|m| m.modified())) {
        (Ok(o), Ok(s)) => o > s,
        _ => false,
    };
    if !fresh {
        let tmp = format!("{out}.{}", std::process::id());
        let o = std::process::Command::new("cc").args(["-O1", "-Wall", "-shared", "-fPIC"]).arg(&src).args(["-ldl", "-o", &tmp]).output().map_err(|e| format!("cannot run cc: {e}"))?;
        if !o.status.success() {
            return Err(format!("envshim.c does not compile:\n{}", String::from_utf8_lossy(&o.stderr)));
        }
        std::fs::rename(&tmp, &out).map_err(|e| e.to_string())?;
    }
    Ok(out)
}

pub fn spec_for(ref_id: u32, leap: u16, ref_time_ns: i128) -> TrackSpec {
    TrackSpec { ref_id, leap, ref_time_ns, offset_bits: encode_float(0.001), delay_bits: encode_float(0.01), disp_bits: encode_float(0.01), interval_bits: encode_float(16.0) }
}

fn real_now_ns() -> i128 {
    let mut ts = libc::timespec { tv_sec: 0, tv_nsec: 0 };
    // SAFETY: plain system call with a valid pointer (the raw call: not the harness's virtual clock)
    unsafe { libc::syscall(libc::SYS_clock_gettime, libc::CLOCK_REALTIME, &mut ts as *mut libc::timespec) };
    ts.tv_sec as i128 * 1_000_000_000 + ts.tv_nsec as i128
}
fn mono_ms() -> u64 {
    (crate::common::vclock::raw_now_s() * 1000.0) as u64
}

fn mount(src: &str, target: &str, fstype: Option<&str>, flags: libc::c_ulong) -> Result<(), String> {
    let s = std::ffi::CString::new(src).unwrap();
    let t = std::ffi::CString::new(target).unwrap();
    let f = fstype.map(|f| std::ffi::CString::new(f).unwrap());
    // SAFETY: valid C strings
    let r = unsafe { libc::mount(s.as_ptr(), t.as_ptr(), f.as_ref().map(|f| f.as_ptr()).unwrap_or(std::ptr::null()), flags, std::ptr::null()) };
    if r != 0 {
        return Err(format!("mount {target}: {}", std::io::Error::last_os_error()));
    }
    Ok(())
}

/// Private world for one scenario. Err means the sandbox does not allow it (not root, no namespaces).
fn enter_namespace() -> Result<(), String> {
    // SAFETY: plain system call
    if unsafe { libc::unshare(libc::CLONE_NEWNS) } != 0 {
        return Err(format!("unshare: {}", std::io::Error::last_os_error()));
    }
    mount("none", "/", None, libc::MS_REC | libc::MS_PRIVATE)?;
    mount("tmpfs", "/run", Some("tmpfs"), 0)?;
    if std::fs::canonicalize("/var/run").map(|p| p != Path::new("/run")).unwrap_or(true) {
        let _ = std::fs::create_dir_all("/var/run");
        mount("tmpfs", "/var/run", Some("tmpfs"), 0)?;
    }
    mount("tmpfs", "/sys/class/net", Some("tmpfs"), 0)?;
    mount("tmpfs", "/sys/bus/pci/devices", Some("tmpfs"), 0)?;
    std::fs::create_dir_all(format!("/sys/class/net/{IFACE}/device")).map_err(|e| e.to_string())?;
    std::fs::write(format!("/sys/class/net/{IFACE}/device/uevent"), format!("DRIVER=ena\nPCI_SLOT_NAME={SLOT}\n")).map_err(|e| e.to_string())?;
    std::fs::create_dir_all(format!("/sys/bus/pci/devices/{SLOT}")).map_err(|e| e.to_string())?;
    Ok(())
}

fn add_virtual_iface(name: &str) -> Result<(), String> {
    if !Path::new("/sys/devices/virtual/net/.cbv").exists() {
        mount("tmpfs", "/sys/devices/virtual/net", Some("tmpfs"), 0)?;
        let _ = std::fs::write("/sys/devices/virtual/net/.cbv", b"");
    }
    std::fs::create_dir_all(format!("/sys/devices/virtual/net/{name}/queues")).map_err(|e| e.to_string())?;
    std::fs::write(format!("/sys/devices/virtual/net/{name}/uevent"), format!("INTERFACE={name}\nIFINDEX=7\n")).map_err(|e| e.to_string())?;
    std::os::unix::fs::symlink(format!("../../devices/virtual/net/{name}"), format!("/sys/class/net/{name}")).map_err(|e| e.to_string())?;
    Ok(())
}

pub fn tagged_spec(ref_id: u32, leap: u16, ref_time_ns: i128, k: usize) -> TrackSpec {
    TrackSpec { disp_bits: encode_float(0.01 + 0.001 * k as f64), ..spec_for(ref_id, leap, ref_time_ns) }
}

fn raw_mono_ns() -> i128 {
    let mut ts = libc::timespec { tv_sec: 0, tv_nsec: 0 };
    // SAFETY: plain system call with a valid pointer
    unsafe { libc::syscall(libc::SYS_clock_gettime, libc::CLOCK_MONOTONIC, &mut ts as *mut libc::timespec) };
    ts.tv_sec as i128 * 1_000_000_000 + ts.tv_nsec as i128
}

type Arrivals = std::sync::Arc<std::sync::Mutex<Vec<i128>>>;

// How well the machine kept time while a scenario ran (per scenario process). The scenarios run in real time: on a
// machine that is so loaded that a thread sleeping 10 ms wakes up a quarter of a second late, or that the stand-in
// chronyd's reply leaves long after it was due, a daemon that never synchronises proves nothing about the daemon.
static MAX_LAG_MS: std::sync::atomic::AtomicU64 = std::sync::atomic::AtomicU64::new(0);
static MAX_REPLY_LATE_MS: std::sync::atomic::AtomicU64 = std::sync::atomic::AtomicU64::new(0);

fn start_heartbeat() {
    MAX_LAG_MS.store(0, std::sync::atomic::Ordering::SeqCst);
    MAX_REPLY_LATE_MS.store(0, std::sync::atomic::Ordering::SeqCst);
    std::thread::spawn(|| loop {
        let t = raw_mono_ns();
        crate::common::vclock::real_sleep(std::time::Duration::from_millis(10));
        let lag = ((raw_mono_ns() - t) / 1_000_000 - 10).max(0) as u64;
        MAX_LAG_MS.fetch_max(lag, std::sync::atomic::Ordering::SeqCst);
    });
}

fn health() -> Value {
    json!({"max_scheduling_lag_ms": MAX_LAG_MS.load(std::sync::atomic::Ordering::SeqCst), "max_reply_lateness_ms": MAX_REPLY_LATE_MS.load(std::sync::atomic::Ordering::SeqCst)})
}

/// The scenario ran on a machine that did not keep time (see above): what it observed decides nothing.
pub fn too_slow(v: &Value) -> bool {
    v["machine"]["max_scheduling_lag_ms"].as_u64().unwrap_or(0) > 200 || v["machine"]["max_reply_lateness_ms"].as_u64().unwrap_or(0) > 300
}

pub fn slow_note(v: &Value) -> String {
    format!("inconclusive: the machine did not keep time while the scenario ran (a 10 ms sleep overslept by up to {} ms, a reply of the stand-in chronyd left up to {} ms late), three attempts", v["machine"]["max_scheduling_lag_ms"], v["machine"]["max_reply_lateness_ms"])
}

/// Up to three attempts while the machine is too slow.
fn attempts(mut f: impl FnMut() -> Result<Value, String>) -> Result<Value, String> {
    let mut last = f()?;
    for _ in 0..2 {
        if !too_slow(&last) {
            break;
        }
        last = f()?;
    }
    Ok(last)
}

fn bring_loopback_up() -> Result<(), String> {
    // SAFETY: ioctl on a throw-away datagram socket with a zeroed ifreq naming "lo"
    unsafe {
        let fd = libc::socket(libc::AF_INET, libc::SOCK_DGRAM, 0);
        if fd < 0 {
            return Err("socket".into());
        }
        let mut ifr: libc::ifreq = std::mem::zeroed();
        for (i, b) in b"lo".iter().enumerate() {
            ifr.ifr_name[i] = *b as libc::c_char;
        }
        let mut ok = libc::ioctl(fd, libc::SIOCGIFFLAGS, &mut ifr) == 0;
        if ok {
            ifr.ifr_ifru.ifru_flags |= (libc::IFF_UP | libc::IFF_RUNNING) as libc::c_short;
            ok = libc::ioctl(fd, libc::SIOCSIFFLAGS, &ifr) == 0;
        }
        libc::close(fd);
        if !ok {
            return Err(format!("cannot bring lo up: {}", std::io::Error::last_os_error()));
        }
    }
    Ok(())
}

/// Where the 12-byte reference time sits in a tracking reply (found by comparing two replies).
fn ref_time_offset() -> usize {
    let a = tracking_wire(&spec_for(ID_OTHER, 0, 0), 1);
    let b = tracking_wire(&spec_for(ID_OTHER, 0, (1i128 << 32) * 1_000_000_000), 1);
    a.iter().zip(b.iter()).position(|(x, y)| x != y).expect("reference time in the wire format") - 3
}

type Poison = std::sync::Arc<std::sync::atomic::AtomicBool>;

/// `poison`: when set, the next reply (one only) carries a reference time of all-ones bytes, on which the chrony
/// protocol library panics while decoding - inside the daemon's polling thread. A one-shot death of that thread
/// that an outsider can cause at a moment of its choosing.
fn fake_chronyd(sc: &Scenario, arrivals: Arrivals, poison: Poison) -> Result<(), String> {
    let (ref_id, leap) = sc.chronyd.unwrap();
    let delays = if sc.reply_delays_ms.is_empty() { vec![sc.chronyd_delay_ms] } else { sc.reply_delays_ms.clone() };
    let tag = sc.tag_replies;
    let off = ref_time_offset();
    let make = move |k: usize, seq: u32| -> Vec<u8> {
        let rt = real_now_ns() - 1_000_000_000;
        let mut w = if tag { tracking_wire(&tagged_spec(ref_id, leap, rt, k), seq) } else { tracking_wire(&spec_for(ref_id, leap, rt), seq) };
        if poison.swap(false, std::sync::atomic::Ordering::SeqCst) {
            for b in &mut w[off..off + 12] {
                *b = 0xff;
            }
        }
        w
    };
    if sc.udp_only {
        // SAFETY: plain system call
        if unsafe { libc::unshare(libc::CLONE_NEWNET) } != 0 {
            return Err(format!("unshare(CLONE_NEWNET): {}", std::io::Error::last_os_error()));
        }
        bring_loopback_up()?;
        let sock = std::net::UdpSocket::bind("127.0.0.1:323").map_err(|e| format!("bind 127.0.0.1:323: {e}"))?;
        std::thread::spawn(move || {
            let mut buf = [0u8; 1500];
            let mut k = 0usize;
            loop {
                let (n, addr) = match sock.recv_from(&mut buf) {
                    Ok(x) => x,
                    Err(_) => return,
                };
                if n < 12 {
                    continue;
                }
                arrivals.lock().unwrap().push(raw_mono_ns());
                let seq = u32::from_be_bytes([buf[8], buf[9], buf[10], buf[11]]);
                let d = delays[k.min(delays.len() - 1)];
                let reply = make(k, seq);
                k += 1;
                let s2 = sock.try_clone().expect("clone");
                let arrived = raw_mono_ns();
                std::thread::spawn(move || {
                    crate::common::vclock::real_sleep(std::time::Duration::from_millis(d));
                    let _ = s2.send_to(&reply, addr);
                    MAX_REPLY_LATE_MS.fetch_max((((raw_mono_ns() - arrived) / 1_000_000) as u64).saturating_sub(d), std::sync::atomic::Ordering::SeqCst);
                });
            }
        });
        return Ok(());
    }
    std::fs::create_dir_all("/var/run/chrony").map_err(|e| e.to_string())?;
    let sock = std::os::unix::net::UnixDatagram::bind("/var/run/chrony/chronyd.sock").map_err(|e| format!("bind chronyd.sock: {e}"))?;
    std::thread::spawn(move || {
        let mut buf = [0u8; 1500];
        let mut k = 0usize;
        loop {
            let (n, addr) = match sock.recv_from(&mut buf) {
                Ok(x) => x,
                Err(_) => return,
            };
            if n < 12 {
                continue;
            }
            arrivals.lock().unwrap().push(raw_mono_ns());
            let seq = u32::from_be_bytes([buf[8], buf[9], buf[10], buf[11]]);
            let d = delays[k.min(delays.len() - 1)];
            let reply = make(k, seq);
            k += 1;
            let path = addr.as_pathname().map(|p| p.to_path_buf());
            let s2 = sock.try_clone().expect("clone");
            let arrived = raw_mono_ns();
            std::thread::spawn(move || {
                if d > 0 {
                    crate::common::vclock::real_sleep(std::time::Duration::from_millis(d));
                }
                if let Some(p) = path {
                    let _ = s2.send_to(&reply, p);
                }
                MAX_REPLY_LATE_MS.fetch_max((((raw_mono_ns() - arrived) / 1_000_000) as u64).saturating_sub(d), std::sync::atomic::Ordering::SeqCst);
            });
        }
    });
    Ok(())
}

/// Run one scenario; the result describes what an outside observer saw.
pub fn run_scenario(bin: &str, sc: &Scenario) -> Result<Value, String> {
    attempts(|| run_scenario_once(bin, sc))
}

fn run_scenario_once(bin: &str, sc: &Scenario) -> Result<Value, String> {
    let limit_s = 4 * sc.observe_ms / 1000 + 25;
    let bin = bin.to_string();
    let sc2 = sc.clone();
    run_with_timeout(limit_s, move || {
        let sc = sc2;
        if let Err(e) = enter_namespace() {
            return json!({"unavailable": e});
        }
        // SAFETY: process-wide, the daemon inherits it (what a service manager gives a service)
        unsafe { libc::umask(0o022) };
        start_heartbeat();
        for n in &sc.virtual_ifaces {
            if let Err(e) = add_virtual_iface(n) {
                return json!({"unavailable": e});
            }
        }
        let phc_path = format!("/sys/bus/pci/devices/{SLOT}/phc_error_bound");
        if let PhcFile::Value(v) = sc.phc {
            crate::histmc::pipeline::write_sysfs_like(Path::new(&phc_path), v);
        }
        let arrivals: Arrivals = Default::default();
        if sc.chronyd.is_some() {
            if let Err(e) = fake_chronyd(&sc, arrivals.clone(), Default::default()) {
                return json!({"unavailable": e});
            }
        }
        let shm = "/var/run/clockbound/shm";
        if sc.block_directory {
            let _ = std::fs::write("/var/run/clockbound", b"not a directory");
        }
        if let Some(bytes) = &sc.preexisting {
            let _ = std::fs::create_dir_all("/var/run/clockbound");
            let _ = std::fs::write(shm, bytes);
        }
        let sink = |stream: u8| -> std::process::Stdio {
            if sc.stdio_full == stream {
                if let Ok(f) = std::fs::OpenOptions::new().write(true).open("/dev/full") {
                    return f.into();
                }
            }
            std::process::Stdio::null()
        };
        let mut child = match daemon_command(&bin).args(&sc.args).envs(sc.env.iter().cloned()).stdin(std::process::Stdio::null()).stdout(sink(1)).stderr(sink(2)).spawn() {
            Ok(c) => c,
            Err(e) => return json!({"unavailable": format!("cannot start {bin}: {e}")}),
        };
        let t0 = mono_ms();
        let mut pubs: Vec<Value> = vec![];
        let mut last_gen: u16 = 0;
        let mut exit: Option<i32> = None;
        let mut exit_after_ms: Option<u64> = None;
        let mut appeared = false;
        loop {
            let t = mono_ms() - t0;
            if t > sc.observe_ms {
                let synced = pubs.iter().filter(|p| p["status"] == 1).count() as u32;
                if (synced >= sc.wait_for_synchronized && pubs.len() as u32 >= sc.wait_for_publications) || t > 4 * sc.observe_ms {
                    break;
                }
            }
            if let PhcFile::AppearsAfter(ms, v) = sc.phc {
                if !appeared && t >= ms {
                    crate::histmc::pipeline::write_sysfs_like(Path::new(&phc_path), v);
                    appeared = true;
                }
            }
            if let Ok(Some(st)) = child.try_wait() {
                exit = Some(st.code().unwrap_or(-1));
                exit_after_ms = Some(t);
                break;
            }
            if let Ok(b) = std::fs::read(shm) {
                if b.len() >= 72 {
                    let gen = u16::from_ne_bytes([b[14], b[15]]);
                    if gen != 0 && gen % 2 == 0 && gen != last_gen {
                        last_gen = gen;
                        pubs.push(json!({"t_ms": t, "generation": gen, "as_of_ns": (i64::from_ne_bytes(b[16..24].try_into().unwrap()) as i128 * 1_000_000_000 + i64::from_ne_bytes(b[24..32].try_into().unwrap()) as i128).to_string(),
                            "bound_ns": i64::from_ne_bytes(b[48..56].try_into().unwrap()), "drift_ppb": u32::from_ne_bytes(b[56..60].try_into().unwrap()),
                            "status": u32::from_ne_bytes(b[64..68].try_into().unwrap()), "phc_attribute_present": Path::new(&phc_path).exists()}));
                    }
                }
            }
            crate::common::vclock::real_sleep(std::time::Duration::from_millis(3));
        }
        // how the segment looks to somebody else
        use std::os::unix::fs::PermissionsExt;
        let mode = |p: &str| std::fs::metadata(p).ok().map(|m| m.permissions().mode() & 0o7777);
        let (file_mode, dir_mode) = (mode(shm), mode("/var/run/clockbound"));
        let other_user = if crate::common::privdrop::is_root() && exit.is_none() {
            crate::common::privdrop::run(|| {
                let c = std::ffi::CString::new(shm).unwrap();
                match clock_bound_shm::ShmReader::new(&c) {
                    Ok(mut r) => match r.snapshot() {
                        Ok(ceb) => json!({"open": "ok", "record": crate::common::rec::Rec::from_ceb(ceb).json()}),
                        Err(e) => json!({"open": "ok", "snapshot": format!("{e:?}")}),
                    },
                    Err(e) => json!({"open": format!("{e:?}")}),
                }
            })
            .unwrap_or_else(|e| json!({"open": format!("could not be attempted: {e}")}))
        } else {
            json!({"open": "not attempted"})
        };
        let _ = child.kill();
        let _ = child.wait();
        let arr: Vec<String> = arrivals.lock().unwrap().iter().map(|a| a.to_string()).collect();
        json!({"machine": health(), "publications": pubs, "chronyd_request_arrivals_mono_ns": arr, "daemon_exit_status": exit, "daemon_exited_after_ms": exit_after_ms, "segment_mode_octal": file_mode.map(|m| format!("{m:o}")), "directory_mode_octal": dir_mode.map(|m| format!("{m:o}")),
            "file_mode": file_mode, "dir_mode": dir_mode, "opened_by_uid_65534": other_user})
    })
}

fn read_pub(shm: &str) -> Option<(u16, i128, u32, u64)> {
    use std::os::unix::fs::MetadataExt;
    let b = std::fs::read(shm).ok()?;
    if b.len() < 72 {
        return None;
    }
    let ino = std::fs::metadata(shm).ok()?.ino();
    Some((u16::from_ne_bytes([b[14], b[15]]), i64::from_ne_bytes(b[16..24].try_into().unwrap()) as i128 * 1_000_000_000 + i64::from_ne_bytes(b[24..32].try_into().unwrap()) as i128, u32::from_ne_bytes(b[64..68].try_into().unwrap()), ino))
}

/// A daemon that ends by itself after it has been healthy, and its successor. The daemon runs with its PHC
/// configured against a stand-in chronyd whose reference is that PHC; once it has published a Synchronized record
/// a client attaches (and stays attached); then the PHC's error-bound attribute turns into something that is
/// not a number - the one outside event that kills a worker thread of a running daemon (`expect` in the polling
/// thread). Observed: how long the process survives its worker (C15), what it leaves at the segment path (C04),
/// and - after the attribute is repaired and a second daemon started, as a supervisor would - whether the client
/// that stayed attached sees the second daemon's publications in the same file (C04).
/// `one_shot`: the worker dies of a single undecodable reply from chronyd instead (the cause is gone afterwards).
/// Both daemons run on a host whose CLOCK_MONOTONIC_RAW lags CLOCK_MONOTONIC by 30 s (envshim.c: weeks of slewing).
/// `uptime_s` > 0: the daemon's monotonic clocks read that much less until its first publication (envshim.c
/// CBV_SHIM_EARLY_S): to the daemon, its start-up was that long ago when the worker dies - nothing in the
/// statement limits how long a daemon has been up.
pub fn run_worker_death(bin: &str, shim: &str, uptime_s: u64, restart: bool, one_shot: bool) -> Result<Value, String> {
    attempts(|| run_worker_death_once(bin, shim, uptime_s, restart, one_shot))
}

fn run_worker_death_once(bin: &str, shim: &str, uptime_s: u64, restart: bool, one_shot: bool) -> Result<Value, String> {
    let (bin, shim) = (bin.to_string(), shim.to_string());
    run_with_timeout(120, move || {
        start_heartbeat();
        use std::os::unix::fs::MetadataExt;
        if let Err(e) = enter_namespace() {
            return json!({"unavailable": e});
        }
        // SAFETY: process-wide, the daemon inherits it
        unsafe { libc::umask(0o022) };
        let phc_path = format!("/sys/bus/pci/devices/{SLOT}/phc_error_bound");
        crate::histmc::pipeline::write_sysfs_like(Path::new(&phc_path), 12345);
        let arrivals: Arrivals = Default::default();
        let chronyd = Scenario { chronyd: Some((ID_PHC, 0)), ..Scenario::blank() };
        let poison: Poison = Default::default();
        if let Err(e) = fake_chronyd(&chronyd, arrivals.clone(), poison.clone()) {
            return json!({"unavailable": e});
        }
        let shm = "/var/run/clockbound/shm";
        let mark = "/run/cbv-early";
        let uptime_s = uptime_s.min((raw_mono_ns() / 2_000_000_000) as u64);
        let start = || {
            daemon_command(&bin).args(["-r", "PHC0", "-i", IFACE]).env("LD_PRELOAD", &shim).env("CBV_SHIM_EARLY_S", uptime_s.to_string()).env("CBV_SHIM_EARLY_MARK", mark).env("CBV_SHIM_RAW_LAG_S", "30")
                .stdin(std::process::Stdio::null()).stdout(std::process::Stdio::null()).stderr(std::process::Stdio::null()).spawn()
        };
        let mut child = match start() {
            Ok(c) => c,
            Err(e) => return json!({"unavailable": format!("cannot start {bin}: {e}")}),
        };
        let sleep = |ms: u64| crate::common::vclock::real_sleep(std::time::Duration::from_millis(ms));
        // first lifetime: until a Synchronized record is there (the early-clock window ends at the first publication)
        let t0 = mono_ms();
        let mut marked = uptime_s == 0;
        if marked {
            let _ = std::fs::write(mark, b"");
        }
        let mut t_marked = t0;
        let first = loop {
            if let Some(p) = read_pub(shm) {
                if !marked && p.0 != 0 {
                    let _ = std::fs::write(mark, b"");
                    marked = true;
                    t_marked = mono_ms();
                }
                // (with shifted early clocks: a record published well after the window closed)
                if p.0 != 0 && p.0 % 2 == 0 && p.2 == 1 && marked && (uptime_s == 0 || mono_ms() - t_marked > 2500) {
                    break Some(p);
                }
            }
            if mono_ms() - t0 > 20_000 || child.try_wait().map(|s| s.is_some()).unwrap_or(true) {
                break None;
            }
            sleep(5);
        };
        let Some(first) = first else {
            let _ = child.kill();
            let _ = child.wait();
            return json!({"first_lifetime_never_synchronized": true, "machine": health()});
        };
        let c = std::ffi::CString::new(shm).unwrap();
        let mut attached = clock_bound_shm::ShmReader::new(&c).ok();
        let attached_first = attached.as_mut().and_then(|r| r.snapshot().ok().map(|ceb| crate::common::rec::Rec::from_ceb(ceb)));
        // the attribute turns into garbage: the polling thread dies at its next poll (and would die again at once if
        // it were started again). `one_shot`: instead, ONE reply of chronyd is undecodable (see `fake_chronyd`):
        // the polling thread dies of it once, and everything is in order again afterwards
        if one_shot {
            poison.store(true, std::sync::atomic::Ordering::SeqCst);
        } else {
            let _ = std::fs::write(&phc_path, b"not-a-number\n");
        }
        let t_break = mono_ms();
        let mut exit: Option<i32> = None;
        let mut exited_after: Option<u64> = None;
        while mono_ms() - t_break < 15_000 {
            if let Ok(Some(st)) = child.try_wait() {
                exit = Some(st.code().unwrap_or(-1));
                exited_after = Some(mono_ms() - t_break);
                break;
            }
            sleep(5);
        }
        let requests_after_break = arrivals.lock().unwrap().iter().filter(|a| **a / 1_000_000 > t_break as i128).count();
        if exit.is_none() {
            let _ = child.kill();
            let _ = child.wait();
        }
        let left = read_pub(shm);
        let left_len = std::fs::metadata(shm).ok().map(|m| m.len());
        let mut out = json!({"machine": health(), "first_synchronized_publication": {"generation": first.0, "inode": first.3}, "attached_client_first_record": attached_first.as_ref().map(|r| r.json()),
            "daemon_clock_shift_s": uptime_s, "daemon_exit_status": exit, "daemon_exited_ms_after_the_attribute_broke": exited_after, "tracking_requests_after_the_attribute_broke": requests_after_break,
            "left_behind": {"exists": left_len.is_some(), "length": left_len, "generation": left.map(|l| l.0), "inode": left.map(|l| l.3), "status": left.map(|l| l.2)}});
        if restart {
            let _ = std::fs::remove_file(&phc_path);
            crate::histmc::pipeline::write_sysfs_like(Path::new(&phc_path), 12345);
            let mut second = match start() {
                Ok(c) => c,
                Err(e) => return json!({"unavailable": format!("cannot start {bin}: {e}")}),
            };
            let t1 = mono_ms();
            let before = left;
            let mut gens_seen: Vec<u16> = vec![];
            let fresh = loop {
                if let Some(p) = read_pub(shm) {
                    if gens_seen.last() != Some(&p.0) && gens_seen.len() < 40 {
                        gens_seen.push(p.0);
                    }
                    if p.0 != 0 && p.0 % 2 == 0 && p.2 == 1 && before.map(|b| (b.0, b.1) != (p.0, p.1)).unwrap_or(true) {
                        break Some(p);
                    }
                }
                if mono_ms() - t1 > 20_000 || second.try_wait().map(|s| s.is_some()).unwrap_or(true) {
                    break None;
                }
                sleep(5);
            };
            // the client that stayed attached: what does it see now? (a few tries: the daemon keeps publishing)
            let mut seen = None;
            if let (Some(f), Some(r)) = (fresh, attached.as_mut()) {
                for _ in 0..400 {
                    if let Ok(ceb) = r.snapshot() {
                        let rec = crate::common::rec::Rec::from_ceb(ceb);
                        let as_of = rec.as_of_s as i128 * 1_000_000_000 + rec.as_of_ns as i128;
                        seen = Some(json!({"as_of_ns": as_of.to_string(), "status": rec.status}));
                        if as_of >= f.1 {
                            break;
                        }
                    }
                    sleep(5);
                }
            }
            let _ = second.kill();
            let _ = second.wait();
            out["machine"] = health();
            out["second_lifetime"] = json!({"generations_seen_in_the_file": gens_seen, "published_synchronized": fresh.is_some(), "generation": fresh.map(|f| f.0), "as_of_ns": fresh.map(|f| f.1.to_string()), "inode": fresh.map(|f| f.3),
                "inode_of_path_now": std::fs::metadata(shm).ok().map(|m| m.ino()), "attached_client_sees": seen,
                "attached_client_caught_up": match (fresh, &seen) { (Some(f), Some(s)) => s["as_of_ns"].as_str().and_then(|a| a.parse::<i128>().ok()).map(|a| a >= f.1).unwrap_or(false), _ => false }});
        }
        out
    })
}

/// A daemon that stops for ever (not dies: a hung disk under fsync, SIGSTOP, a frozen cgroup) at a chosen point of
/// creating its segment, and a client - another process - that opens the segment while the daemon is stopped there.
/// What the kernel keeps for a stopped process (descriptors, record locks) is still in force, unlike after a death;
/// the in-process explorations cannot see that difference. The client must come back (with a record or an error)
/// within `limit_ms` of real time.
pub fn run_stalled_daemon(bin: &str, shim: &str, stall: &str, preexisting: Option<Vec<u8>>, limit_ms: u64) -> Result<Value, String> {
    attempts(|| run_stalled_daemon_once(bin, shim, stall, preexisting.clone(), limit_ms))
}

fn run_stalled_daemon_once(bin: &str, shim: &str, stall: &str, preexisting: Option<Vec<u8>>, limit_ms: u64) -> Result<Value, String> {
    let (bin, shim, stall) = (bin.to_string(), shim.to_string(), stall.to_string());
    run_with_timeout(60, move || {
        start_heartbeat();
        if let Err(e) = enter_namespace() {
            return json!({"unavailable": e});
        }
        // SAFETY: process-wide, the daemon inherits it
        unsafe { libc::umask(0o022) };
        let shm = "/var/run/clockbound/shm";
        if let Some(bytes) = &preexisting {
            let _ = std::fs::create_dir_all("/var/run/clockbound");
            let _ = std::fs::write(shm, bytes);
        }
        let mark = "/run/cbv-stalled";
        let mut child = match daemon_command(&bin).env("LD_PRELOAD", &shim).env("CBV_SHIM_STALL", &stall).env("CBV_SHIM_MARK", mark)
            .stdin(std::process::Stdio::null()).stdout(std::process::Stdio::null()).stderr(std::process::Stdio::null()).spawn() {
            Ok(c) => c,
            Err(e) => return json!({"unavailable": format!("cannot start {bin}: {e}")}),
        };
        let sleep = |ms: u64| crate::common::vclock::real_sleep(std::time::Duration::from_millis(ms));
        let t0 = mono_ms();
        let mut reached = false;
        while mono_ms() - t0 < 15_000 {
            if Path::new(mark).exists() {
                reached = true;
                break;
            }
            if child.try_wait().map(|s| s.is_some()).unwrap_or(true) {
                break;
            }
            sleep(3);
        }
        if !reached {
            let _ = child.kill();
            let _ = child.wait();
            return json!({"stall_point_reached": false});
        }
        sleep(50);
        let file_len = std::fs::metadata(shm).ok().map(|m| m.len());
        let (tx, rx) = std::sync::mpsc::channel();
        std::thread::spawn(move || {
            let t = mono_ms();
            let c = std::ffi::CString::new(shm).unwrap();
            let outcome = match clock_bound_shm::ShmReader::new(&c) {
                Ok(mut r) => match r.snapshot() {
                    Ok(_) => "opened, snapshot Ok".to_string(),
                    Err(e) => format!("opened, snapshot {e:?}"),
                },
                Err(e) => format!("open {e:?}"),
            };
            let _ = tx.send((outcome, mono_ms() - t));
        });
        let got = rx.recv_timeout(std::time::Duration::from_millis(limit_ms)).ok();
        let _ = child.kill();
        let _ = child.wait();
        json!({"machine": health(), "stall_point_reached": true, "segment_file_length_at_the_stall": file_len, "client_returned": got.is_some(), "client_outcome": got.as_ref().map(|g| g.0.clone()), "client_took_ms": got.as_ref().map(|g| g.1), "limit_ms": limit_ms})
    })
}
