//! End to end through the release binary: the daemon as it is started in production (`main()`: option
//! handling, the PHC's sysfs lookup, thread start-up), in a private mount namespace with
//!   - a tmpfs on /run (so /var/run/clockbound and /var/run/chrony are private),
//!   - a tmpfs over /sys/class/net holding one interface whose uevent names a PCI slot, and a tmpfs over
//!     /sys/bus/pci/devices holding that slot's `phc_error_bound` attribute (present, absent, appearing later),
//!   - a stand-in chronyd answering tracking requests on /var/run/chrony/chronyd.sock with wire bytes from
//!     the same builder the other engines use (reference id and leap status chosen by the scenario, the
//!     reference time one second before the real clock's reading).
//! Everything an in-process engine cannot see (what `main()` does before it calls into the library) is on this
//! path. The scenarios are few and take real seconds: they complement the exhaustive in-process checks, they
//! are not a sweep.

use crate::common::par::run_with_timeout;
use crate::common::report::Ctx;
use crate::histmc::pipeline::{encode_float, tracking_wire, TrackSpec};
use serde_json::{json, Value};
use std::path::Path;

pub const IFACE: &str = "cbvphc0";
pub const SLOT: &str = "0000:00:05.0";
pub const ID_PHC: u32 = 0x50484330; // "PHC0"
pub const ID_OTHER: u32 = 0x4e545031; // "NTP1"

#[derive(Clone, Debug)]
pub enum PhcFile {
    Absent,
    Value(i64),
    /// absent at start, created with this value after so many milliseconds
    AppearsAfter(u64, i64),
}

#[derive(Clone, Debug)]
pub struct Scenario {
    pub name: &'static str,
    pub args: Vec<String>,
    /// (reference id, leap status) of the stand-in chronyd; None: no chronyd at all
    pub chronyd: Option<(u32, u16)>,
    pub phc: PhcFile,
    /// what the segment path holds before the daemon starts (None: nothing, not even the directory)
    pub preexisting: Option<Vec<u8>>,
    pub observe_ms: u64,
    /// /var/run/clockbound exists as a regular file: the daemon cannot create its segment
    pub block_directory: bool,
    /// the stand-in chronyd answers this long after the request arrived
    pub chronyd_delay_ms: u64,
    /// delay of the reply to the k-th request (overrides chronyd_delay_ms; the last value repeats)
    pub reply_delays_ms: Vec<u64>,
    /// reply k carries root dispersion 0.01 s + k ms, so that the published bound tells which reply was used,
    /// and the observation lists when each request arrived
    pub tag_replies: bool,
    /// chronyd listens on its UDP command port (127.0.0.1:323, in a private network namespace) instead of the
    /// Unix socket
    pub udp_only: bool,
    /// the scenario expects Synchronized publications: on a slow or loaded machine the observation is extended
    /// (up to four times `observe_ms`) until this many have been seen
    pub wait_for_synchronized: u32,
    /// likewise for publications of any status
    pub wait_for_publications: u32,
}

impl Scenario {
    pub fn blank() -> Scenario {
        Scenario { name: "", args: vec![], chronyd: None, phc: PhcFile::Absent, preexisting: None, observe_ms: 1000, block_directory: false, chronyd_delay_ms: 0, reply_delays_ms: vec![], tag_replies: false, udp_only: false, wait_for_synchronized: 0, wait_for_publications: 0 }
    }
}

pub fn binary(ctx: &Ctx) -> String {
    std::env::var("PLAIN_TARGET").map(|t| format!("{t}/release/clockbound")).unwrap_or_else(|_| ctx.verif_dir.join("target/plain/release/clockbound").to_string_lossy().to_string())
}

pub fn spec_for(ref_id: u32, leap: u16, ref_time_ns: i128) -> TrackSpec {
    TrackSpec { ref_id, leap, ref_time_ns, offset_bits: encode_float(0.001), delay_bits: encode_float(0.01), disp_bits: encode_float(0.01), interval_bits: encode_float(16.0) }
}

fn real_now_ns() -> i128 {
    let mut ts = libc::timespec { tv_sec: 0, tv_nsec: 0 };
    // SAFETY: plain system call with a valid pointer (the raw call: not the harness's virtual clock)
    unsafe { libc::syscall(libc::SYS_clock_gettime, libc::CLOCK_REALTIME, &mut ts as *mut libc::timespec) };
    ts.tv_sec as i128 * 1_000_000_000 + ts.tv_nsec as i128
}
fn mono_ms() -> u64 {
    (crate::common::vclock::raw_now_s() * 1000.0) as u64
}

fn mount(src: &str, target: &str, fstype: Option<&str>, flags: libc::c_ulong) -> Result<(), String> {
    let s = std::ffi::CString::new(src).unwrap();
    let t = std::ffi::CString::new(target).unwrap();
    let f = fstype.map(|f| std::ffi::CString::new(f).unwrap());
    // SAFETY: valid C strings
    let r = unsafe { libc::mount(s.as_ptr(), t.as_ptr(), f.as_ref().map(|f| f.as_ptr()).unwrap_or(std::ptr::null()), flags, std::ptr::null()) };
    if r != 0 {
        return Err(format!("mount {target}: {}", std::io::Error::last_os_error()));
    }
    Ok(())
}

/// Private world for one scenario. Err means the sandbox does not allow it (not root, no namespaces).
fn enter_namespace() -> Result<(), String> {
    // SAFETY: plain system call
    if unsafe { libc::unshare(libc::CLONE_NEWNS) } != 0 {
        return Err(format!("unshare: {}", std::io::Error::last_os_error()));
    }
    mount("none", "/", None, libc::MS_REC | libc::MS_PRIVATE)?;
    mount("tmpfs", "/run", Some("tmpfs"), 0)?;
    if std::fs::canonicalize("/var/run").map(|p| p != Path::new("/run")).unwrap_or(true) {
        let _ = std::fs::create_dir_all("/var/run");
        mount("tmpfs", "/var/run", Some("tmpfs"), 0)?;
    }
    mount("tmpfs", "/sys/class/net", Some("tmpfs"), 0)?;
    mount("tmpfs", "/sys/bus/pci/devices", Some("tmpfs"), 0)?;
    std::fs::create_dir_all(format!("/sys/class/net/{IFACE}/device")).map_err(|e| e.to_string())?;
    std::fs::write(format!("/sys/class/net/{IFACE}/device/uevent"), format!("DRIVER=ena\nPCI_SLOT_NAME={SLOT}\n")).map_err(|e| e.to_string())?;
    std::fs::create_dir_all(format!("/sys/bus/pci/devices/{SLOT}")).map_err(|e| e.to_string())?;
    Ok(())
}

pub fn tagged_spec(ref_id: u32, leap: u16, ref_time_ns: i128, k: usize) -> TrackSpec {
    TrackSpec { disp_bits: encode_float(0.01 + 0.001 * k as f64), ..spec_for(ref_id, leap, ref_time_ns) }
}

fn raw_mono_ns() -> i128 {
    let mut ts = libc::timespec { tv_sec: 0, tv_nsec: 0 };
    // SAFETY: plain system call with a valid pointer
    unsafe { libc::syscall(libc::SYS_clock_gettime, libc::CLOCK_MONOTONIC, &mut ts as *mut libc::timespec) };
    ts.tv_sec as i128 * 1_000_000_000 + ts.tv_nsec as i128
}

type Arrivals = std::sync::Arc<std::sync::Mutex<Vec<i128>>>;

fn bring_loopback_up() -> Result<(), String> {
    // SAFETY: ioctl on a throw-away datagram socket with a zeroed ifreq naming "lo"
    unsafe {
        let fd = libc::socket(libc::AF_INET, libc::SOCK_DGRAM, 0);
        if fd < 0 {
            return Err("socket".into());
        }
        let mut ifr: libc::ifreq = std::mem::zeroed();
        for (i, b) in b"lo".iter().enumerate() {
            ifr.ifr_name[i] = *b as libc::c_char;
        }
        let mut ok = libc::ioctl(fd, libc::SIOCGIFFLAGS, &mut ifr) == 0;
        if ok {
            ifr.ifr_ifru.ifru_flags |= (libc::IFF_UP | libc::IFF_RUNNING) as libc::c_short;
            ok = libc::ioctl(fd, libc::SIOCSIFFLAGS, &ifr) == 0;
        }
        libc::close(fd);
        if !ok {
            return Err(format!("cannot bring lo up: {}", std::io::Error::last_os_error()));
        }
    }
    Ok(())
}

fn fake_chronyd(sc: &Scenario, arrivals: Arrivals) -> Result<(), String> {
    let (ref_id, leap) = sc.chronyd.unwrap();
    let delays = if sc.reply_delays_ms.is_empty() { vec![sc.chronyd_delay_ms] } else { sc.reply_delays_ms.clone() };
    let tag = sc.tag_replies;
    let make = move |k: usize, seq: u32| -> Vec<u8> {
        let rt = real_now_ns() - 1_000_000_000;
        if tag { tracking_wire(&tagged_spec(ref_id, leap, rt, k), seq) } else { tracking_wire(&spec_for(ref_id, leap, rt), seq) }
    };
    if sc.udp_only {
        // SAFETY: plain system call
        if unsafe { libc::unshare(libc::CLONE_NEWNET) } != 0 {
            return Err(format!("unshare(CLONE_NEWNET): {}", std::io::Error::last_os_error()));
        }
        bring_loopback_up()?;
        let sock = std::net::UdpSocket::bind("127.0.0.1:323").map_err(|e| format!("bind 127.0.0.1:323: {e}"))?;
        std::thread::spawn(move || {
            let mut buf = [0u8; 1500];
            let mut k = 0usize;
            loop {
                let (n, addr) = match sock.recv_from(&mut buf) {
                    Ok(x) => x,
                    Err(_) => return,
                };
                if n < 12 {
                    continue;
                }
                arrivals.lock().unwrap().push(raw_mono_ns());
                let seq = u32::from_be_bytes([buf[8], buf[9], buf[10], buf[11]]);
                let d = delays[k.min(delays.len() - 1)];
                let reply = make(k, seq);
                k += 1;
                let s2 = sock.try_clone().expect("clone");
                std::thread::spawn(move || {
                    crate::common::vclock::real_sleep(std::time::Duration::from_millis(d));
                    let _ = s2.send_to(&reply, addr);
                });
            }
        });
        return Ok(());
    }
    std::fs::create_dir_all("/var/run/chrony").map_err(|e| e.to_string())?;
    let sock = std::os::unix::net::UnixDatagram::bind("/var/run/chrony/chronyd.sock").map_err(|e| format!("bind chronyd.sock: {e}"))?;
    std::thread::spawn(move || {
        let mut buf = [0u8; 1500];
        let mut k = 0usize;
        loop {
            let (n, addr) = match sock.recv_from(&mut buf) {
                Ok(x) => x,
                Err(_) => return,
            };
            if n < 12 {
                continue;
            }
            arrivals.lock().unwrap().push(raw_mono_ns());
            let seq = u32::from_be_bytes([buf[8], buf[9], buf[10], buf[11]]);
            let d = delays[k.min(delays.len() - 1)];
            let reply = make(k, seq);
            k += 1;
            let path = addr.as_pathname().map(|p| p.to_path_buf());
            let s2 = sock.try_clone().expect("clone");
            std::thread::spawn(move || {
                if d > 0 {
                    crate::common::vclock::real_sleep(std::time::Duration::from_millis(d));
                }
                if let Some(p) = path {
                    let _ = s2.send_to(&reply, p);
                }
            });
        }
    });
    Ok(())
}

/// Run one scenario; the result describes what an outside observer saw.
pub fn run_scenario(bin: &str, sc: &Scenario) -> Result<Value, String> {
    let limit_s = 4 * sc.observe_ms / 1000 + 25;
    let bin = bin.to_string();
    let sc2 = sc.clone();
    run_with_timeout(limit_s, move || {
        let sc = sc2;
        if let Err(e) = enter_namespace() {
            return json!({"unavailable": e});
        }
        // SAFETY: process-wide, the daemon inherits it (what a service manager gives a service)
        unsafe { libc::umask(0o022) };
        let phc_path = format!("/sys/bus/pci/devices/{SLOT}/phc_error_bound");
        if let PhcFile::Value(v) = sc.phc {
            crate::histmc::pipeline::write_sysfs_like(Path::new(&phc_path), v);
        }
        let arrivals: Arrivals = Default::default();
        if sc.chronyd.is_some() {
            if let Err(e) = fake_chronyd(&sc, arrivals.clone()) {
                return json!({"unavailable": e});
            }
        }
        let shm = "/var/run/clockbound/shm";
        if sc.block_directory {
            let _ = std::fs::write("/var/run/clockbound", b"not a directory");
        }
        if let Some(bytes) = &sc.preexisting {
            let _ = std::fs::create_dir_all("/var/run/clockbound");
            let _ = std::fs::write(shm, bytes);
        }
        let mut child = match std::process::Command::new(&bin).args(&sc.args).stdin(std::process::Stdio::null()).stdout(std::process::Stdio::null()).stderr(std::process::Stdio::null()).spawn() {
            Ok(c) => c,
            Err(e) => return json!({"unavailable": format!("cannot start {bin}: {e}")}),
        };
        let t0 = mono_ms();
        let mut pubs: Vec<Value> = vec![];
        let mut last_gen: u16 = 0;
        let mut exit: Option<i32> = None;
        let mut exit_after_ms: Option<u64> = None;
        let mut appeared = false;
        loop {
            let t = mono_ms() - t0;
            if t > sc.observe_ms {
                let synced = pubs.iter().filter(|p| p["status"] == 1).count() as u32;
                if (synced >= sc.wait_for_synchronized && pubs.len() as u32 >= sc.wait_for_publications) || t > 4 * sc.observe_ms {
                    break;
                }
            }
            if let PhcFile::AppearsAfter(ms, v) = sc.phc {
                if !appeared && t >= ms {
                    crate::histmc::pipeline::write_sysfs_like(Path::new(&phc_path), v);
                    appeared = true;
                }
            }
            if let Ok(Some(st)) = child.try_wait() {
                exit = Some(st.code().unwrap_or(-1));
                exit_after_ms = Some(t);
                break;
            }
            if let Ok(b) = std::fs::read(shm) {
                if b.len() >= 72 {
                    let gen = u16::from_ne_bytes([b[14], b[15]]);
                    if gen != 0 && gen % 2 == 0 && gen != last_gen {
                        last_gen = gen;
                        pubs.push(json!({"t_ms": t, "generation": gen, "as_of_ns": (i64::from_ne_bytes(b[16..24].try_into().unwrap()) as i128 * 1_000_000_000 + i64::from_ne_bytes(b[24..32].try_into().unwrap()) as i128).to_string(),
                            "bound_ns": i64::from_ne_bytes(b[48..56].try_into().unwrap()), "drift_ppb": u32::from_ne_bytes(b[56..60].try_into().unwrap()),
                            "status": u32::from_ne_bytes(b[64..68].try_into().unwrap()), "phc_attribute_present": Path::new(&phc_path).exists()}));
                    }
                }
            }
            crate::common::vclock::real_sleep(std::time::Duration::from_millis(3));
        }
        // how the segment looks to somebody else
        use std::os::unix::fs::PermissionsExt;
        let mode = |p: &str| std::fs::metadata(p).ok().map(|m| m.permissions().mode() & 0o7777);
        let (file_mode, dir_mode) = (mode(shm), mode("/var/run/clockbound"));
        let other_user = if crate::common::privdrop::is_root() && exit.is_none() {
            crate::common::privdrop::run(|| {
                let c = std::ffi::CString::new(shm).unwrap();
                match clock_bound_shm::ShmReader::new(&c) {
                    Ok(mut r) => match r.snapshot() {
                        Ok(ceb) => json!({"open": "ok", "record": crate::common::rec::Rec::from_ceb(ceb).json()}),
                        Err(e) => json!({"open": "ok", "snapshot": format!("{e:?}")}),
                    },
                    Err(e) => json!({"open": format!("{e:?}")}),
                }
            })
            .unwrap_or_else(|e| json!({"open": format!("could not be attempted: {e}")}))
        } else {
            json!({"open": "not attempted"})
        };
        let _ = child.kill();
        let _ = child.wait();
        let arr: Vec<String> = arrivals.lock().unwrap().iter().map(|a| a.to_string()).collect();
        json!({"publications": pubs, "chronyd_request_arrivals_mono_ns": arr, "daemon_exit_status": exit, "daemon_exited_after_ms": exit_after_ms, "segment_mode_octal": file_mode.map(|m| format!("{m:o}")), "directory_mode_octal": dir_mode.map(|m| format!("{m:o}")),
            "file_mode": file_mode, "dir_mode": dir_mode, "opened_by_uid_65534": other_user})
    })
}
