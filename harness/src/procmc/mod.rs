//! E5 (C19): the real release `clockbound` binary, one run per --max-drift-rate value, each worker in
//! its own mount namespace with a private tmpfs on /run (so /var/run/clockbound/shm is private).

pub mod e2e;

use crate::common::report::{cov, finish, machinery_failure, Ctx, Outcome, Tier, Violation};
use serde_json::{json, Value};
use std::collections::BTreeMap;
use std::io::Write;
use std::process::{Command, Stdio};

const SCRIPT: &str = r#"
set -u
BIN="$1"; shift
PHC=0
if [ "${CBV_NS:-1}" = "1" ]; then
  mount -t tmpfs tmpfs /run || { echo "SETUP-FAILED mount"; exit 3; }
  # a private /etc (copies of what a dynamically linked program needs), so that a chrony.conf can be put there
  ETC=0
  mkdir -p /run/cbv-etc/chrony
  for f in ld.so.cache ld.so.conf ld.so.conf.d passwd group nsswitch.conf localtime hosts resolv.conf; do [ -e /etc/$f ] && cp -a /etc/$f /run/cbv-etc/ 2>/dev/null; done
  mount --bind /run/cbv-etc /etc 2>/dev/null && ETC=1
  # a network interface with a PTP hardware clock, as far as the daemon's start-up looks: the PCI slot name
  if mount -t tmpfs tmpfs /sys/class/net 2>/dev/null; then
    mkdir -p /sys/class/net/cbvphc0/device && printf 'DRIVER=ena\nPCI_SLOT_NAME=0000:00:05.0\n' > /sys/class/net/cbvphc0/device/uevent && PHC=1
  fi
fi
# wait_pub <pid> <generation to differ from>: sets res
wait_pub() {
  res=""
  i=0
  while [ $i -lt 3000 ]; do
    i=$((i+1))
    if ! kill -0 $1 2>/dev/null; then wait $1; res="EXIT $?"; return; fi
    if [ -s /run/clockbound/shm ]; then
      g=$(od -An -tu2 -j14 -N2 /run/clockbound/shm 2>/dev/null | tr -d ' ')
      if [ -n "$g" ] && [ "$g" != "0" ] && [ "$g" != "$2" ] && [ $((g % 2)) -eq 0 ]; then
        res="DRIFT $(od -An -tu4 -j56 -N4 /run/clockbound/shm | tr -d ' ') $(stat -c %s /run/clockbound/shm)"; return
      fi
    fi
    sleep 0.004
  done
}
while read -r c v; do
  rm -rf /run/clockbound
  if [ "$c" -ge 2 ] && [ "$c" -le 4 ] && [ "$PHC" != "1" ]; then echo "RESULT $c $v SKIPPED"; continue; fi
  if [ "$c" -ge 7 ] && [ "$c" -le 8 ] && [ "$ETC" != "1" ]; then echo "RESULT $c $v SKIPPED"; continue; fi
  if [ "$c" -ge 9 ] && [ -z "$CBV_SHIM" ]; then echo "RESULT $c $v SKIPPED"; continue; fi
  if [ "$ETC" = "1" ]; then
    rm -f /etc/chrony.conf /etc/chrony/chrony.conf
    if [ "$c" -ge 7 ] && [ "$c" -le 8 ]; then
      # a host set up as the README says: chronyd's own configuration carries a maximum clock error
      printf 'pool pool.ntp.org iburst\nmaxclockerror 50\nmakestep 1.0 3\ndriftfile /var/lib/chrony/drift\n' > /etc/chrony.conf
      cp /etc/chrony.conf /etc/chrony/chrony.conf
    fi
  fi
  prev=0
  if [ "$c" = "5" ] || [ "$c" = "6" ]; then
    # a previous daemon instance with another rate leaves its segment behind
    if [ "$c" = "5" ]; then "$BIN" >/dev/null 2>&1 & else "$BIN" --max-drift-rate=50 >/dev/null 2>&1 & fi
    ppid=$!
    wait_pub $ppid 0
    kill $ppid 2>/dev/null; wait $ppid 2>/dev/null
    case "$res" in DRIFT*) prev=$(od -An -tu2 -j14 -N2 /run/clockbound/shm | tr -d ' ') ;; *) echo "RESULT $c $v SETUP-OF-PREVIOUS-INSTANCE-FAILED"; continue ;; esac
  fi
  case "$c:$v" in
    0:default|6:default|8:default) "$BIN" >/dev/null 2>&1 & ;;
    4:default) "$BIN" -r PHC0 -i cbvphc0 >/dev/null 2>&1 & ;;
    0:*|5:*|7:*) "$BIN" "--max-drift-rate=$v" >/dev/null 2>&1 & ;;
    1:*) "$BIN" -m "$v" >/dev/null 2>&1 & ;;
    2:*) "$BIN" --max-drift-rate "$v" -r PHC0 -i cbvphc0 >/dev/null 2>&1 & ;;
    3:*) "$BIN" -i cbvphc0 -r PHC0 "--max-drift-rate=$v" >/dev/null 2>&1 & ;;
    10:default) LD_PRELOAD="$CBV_SHIM" CBV_SHIM_FREQ=3997696 "$BIN" >/dev/null 2>&1 & ;;
    9:*) LD_PRELOAD="$CBV_SHIM" CBV_SHIM_FREQ=-819200 "$BIN" "--max-drift-rate=$v" >/dev/null 2>&1 & ;;
    *) echo "RESULT $c $v BADCONTEXT"; continue ;;
  esac
  pid=$!
  wait_pub $pid $prev
  kill $pid 2>/dev/null; wait $pid 2>/dev/null
  echo "RESULT $c $v ${res:-TIMEOUT}"
done
"#;

/// How the option reaches the daemon (the published value must not depend on it).
const CONTEXTS: [&str; 11] = [
    "--max-drift-rate=V (flag omitted for 'default')",
    "-m V",
    "--max-drift-rate V -r PHC0 -i <interface with a PTP hardware clock>",
    "-i <interface> -r PHC0 --max-drift-rate=V",
    "flag omitted, -r PHC0 -i <interface>",
    "--max-drift-rate=V, restarting on the segment left behind by an instance that ran with the default rate",
    "flag omitted, restarting on the segment left behind by an instance that ran with --max-drift-rate=50",
    "--max-drift-rate=V on a host whose /etc/chrony.conf (and /etc/chrony/chrony.conf) says 'maxclockerror 50'",
    "flag omitted, on a host whose chrony.conf says 'maxclockerror 50'",
    "--max-drift-rate=V on a synchronised host whose kernel reports a frequency correction of -12.5 ppm (adjtimex answered by harness/cabi/envshim.c)",
    "flag omitted, on a synchronised host whose kernel reports a frequency correction of +61 ppm",
];

fn alphabet(tier: Tier) -> Vec<(u8, String)> {
    let mut v: Vec<u64> = vec![];
    match tier {
        Tier::Quick => {
            v.extend([0, 1, 2, 50, 100, 1000, 4_294_967, 4_294_968, 4_294_969, 8_589_934, 8_589_935, 1 << 31, u32::MAX as u64]);
            for k in [1u64, 2, 3, 7, 500, 999] {
                let c = (k * (1u64 << 32) + 999) / 1000;
                v.extend([c - 1, c]);
            }
            for p in [16u32, 22, 23, 24, 31] {
                v.extend([(1u64 << p) - 1, 1u64 << p, (1u64 << p) + 1]);
            }
        }
        Tier::Thorough => {
            v.extend(0..=100);
            v.push(1000);
            for p in 1..32u32 {
                v.extend([(1u64 << p) - 1, 1u64 << p, (1u64 << p) + 1]);
            }
            // every point at which v * 1000 crosses a multiple of 2^32
            for k in 1..=999u64 {
                let c = (k * (1u64 << 32) + 999) / 1000;
                v.extend([c - 1, c]);
            }
            v.push(u32::MAX as u64);
            // an even sweep of the whole 32-bit range, and every value around the largest representable one
            let n = 6000u64;
            for i in 0..n {
                v.push(i * (u32::MAX as u64) / n);
            }
            v.extend(4_294_967 - 64..=4_294_967 + 64);
        }
    }
    let mut boundary: Vec<u64> = match tier {
        Tier::Quick => v.clone(),
        Tier::Thorough => v.iter().cloned().filter(|x| *x <= 100 || *x == 1000 || (*x > 4_000_000 && *x % 7 != 3)).chain((1..=999u64).flat_map(|k| { let c = (k * (1u64 << 32) + 999) / 1000; [c - 1, c] })).collect(),
    };
    // an arithmetic progression with a prime stride over the whole range of representable rates
    // (0 ..= 4 294 967): boundary values alone cannot expose a conversion that is off for scattered values
    // (e.g. one that goes through floating point)
    let stride = match tier {
        Tier::Quick => 2003u64,
        Tier::Thorough => 31,
    };
    let mut x = 7u64;
    while x <= 4_294_967 {
        v.push(x);
        x += stride;
    }
    v.retain(|x| *x <= u32::MAX as u64);
    v.sort();
    v.dedup();
    let mut out: Vec<(u8, String)> = vec![(0, "default".into()), (4, "default".into()), (6, "default".into()), (8, "default".into()), (10, "default".into())];
    out.extend(v.iter().map(|x| (0u8, x.to_string())));
    // the other spellings / companions of the option: the structured values (not the stride sweep)
    boundary.retain(|x| *x <= u32::MAX as u64);
    boundary.sort();
    boundary.dedup();
    for c in [1u8, 2, 3, 5, 7, 9] {
        out.extend(boundary.iter().map(|x| (c, x.to_string())));
    }
    // clap-level rejects
    for c in 0..=3u8 {
        out.extend([(c, "4294967296".to_string()), (c, "-1".to_string()), (c, "fast".to_string()), (c, "1.5".to_string())]);
    }
    out
}

fn run_worker(bin: &str, shim: &str, values: &[(u8, String)], ns: bool) -> Result<Vec<(u8, String, String)>, String> {
    let mut cmd = if ns {
        let mut c = Command::new("unshare");
        c.args(["-m", "bash", "-c", SCRIPT, "cbv-c19", bin]);
        c
    } else {
        let mut c = Command::new("bash");
        c.args(["-c", SCRIPT, "cbv-c19", bin]).env("CBV_NS", "0");
        c
    };
    // the values go through a file, not a pipe: with both directions on pipes the worker blocks on a full stdout while
    // this side is still blocked writing its stdin (it happened once the thorough alphabet outgrew the pipe buffers)
    static SEQ: std::sync::atomic::AtomicUsize = std::sync::atomic::AtomicUsize::new(0);
    let sdir = std::path::Path::new("/dev/shm").join(format!("cbv-{}", std::process::id()));
    let _ = std::fs::create_dir_all(&sdir);
    let list = sdir.join(format!("c19-values-{}.txt", SEQ.fetch_add(1, std::sync::atomic::Ordering::SeqCst)));
    {
        let mut f = std::fs::File::create(&list).map_err(|e| e.to_string())?;
        for (c, v) in values {
            writeln!(f, "{c} {v}").map_err(|e| e.to_string())?;
        }
    }
    let input = std::fs::File::open(&list).map_err(|e| e.to_string())?;
    let child = cmd.env("CBV_SHIM", shim).stdin(Stdio::from(input)).stdout(Stdio::piped()).stderr(Stdio::null()).spawn().map_err(|e| format!("cannot start worker: {e}"))?;
    let out = child.wait_with_output().map_err(|e| e.to_string());
    let _ = std::fs::remove_file(&list);
    let out = out?;
    let text = String::from_utf8_lossy(&out.stdout).to_string();
    if text.contains("SETUP-FAILED") {
        return Err("cannot mount a private /run".into());
    }
    let mut res = vec![];
    for l in text.lines() {
        if let Some(rest) = l.strip_prefix("RESULT ") {
            let (c, rest) = rest.split_once(' ').unwrap_or((rest, ""));
            let (v, r) = rest.split_once(' ').unwrap_or((rest, ""));
            res.push((c.parse().unwrap_or(255), v.to_string(), r.to_string()));
        }
    }
    if res.len() != values.len() {
        return Err(format!("worker returned {} results for {} values", res.len(), values.len()));
    }
    Ok(res)
}

pub fn run(ctx: &Ctx) -> i32 {
    let bin = std::env::var("PLAIN_TARGET").map(|t| format!("{t}/release/clockbound")).unwrap_or_else(|_| ctx.verif_dir.join("target/plain/release/clockbound").to_string_lossy().to_string());
    if !std::path::Path::new(&bin).exists() {
        machinery_failure(&format!("release binary {bin} not built"));
    }
    let values: Vec<(u8, String)> = match &ctx.replay {
        Some(p) => {
            let doc: Value = serde_json::from_str(&std::fs::read_to_string(p).expect("replay file")).expect("json");
            vec![(doc["case"]["command_line_context"].as_u64().unwrap_or(0) as u8, doc["case"]["max_drift_rate_arg"].as_str().unwrap().to_string())]
        }
        None => alphabet(ctx.tier),
    };
    let shim = e2e::shim(ctx).unwrap_or_else(|e| machinery_failure(&format!("C19: {e}")));
    let ns = Command::new("unshare").args(["-m", "true"]).status().map(|s| s.success()).unwrap_or(false);
    let nworkers = if ns { crate::common::par::threads().min(values.len()) } else { 1 };
    let chunks: Vec<Vec<(u8, String)>> = (0..nworkers).map(|w| values.iter().skip(w).step_by(nworkers).cloned().collect()).collect();
    let results: Vec<Result<Vec<(u8, String, String)>, String>> = std::thread::scope(|s| {
        let hs: Vec<_> = chunks.iter().map(|c| s.spawn(|| run_worker(&bin, &shim, c, ns))).collect();
        hs.into_iter().map(|h| h.join().unwrap_or_else(|_| Err("worker thread panicked".into()))).collect()
    });
    let mut all: Vec<(u8, String, String)> = vec![];
    for r in results {
        match r {
            Ok(v) => all.extend(v),
            Err(e) => machinery_failure(&format!("C19 worker: {e}")),
        }
    }
    // simplest first: the smallest failing value is the one reported
    all.sort_by_key(|(c, v, _)| (v.parse::<i128>().unwrap_or(-1), *c));
    let mut skipped = 0u64;
    let mut per_context: BTreeMap<u8, u64> = BTreeMap::new();
    let mut violations: Vec<Violation> = vec![];
    let mut counts: BTreeMap<String, u64> = BTreeMap::new();
    let mut classes: BTreeMap<&str, u64> = BTreeMap::new();
    let mut samples = vec![];
    let mut nontrivial = 0u64;
    for (c, v, r) in &all {
        if r == "SKIPPED" {
            skipped += 1;
            continue;
        }
        *per_context.entry(*c).or_insert(0) += 1;
        let how = CONTEXTS.get(*c as usize).copied().unwrap_or("?");
        if r == "TIMEOUT" || r == "BADCONTEXT" || r.starts_with("SETUP-OF") {
            machinery_failure(&format!("--max-drift-rate={v} ({how}): the daemon neither published nor exited within the time limit ({r})"));
        }
        let expected: Option<u64> = if v == "default" { Some(1000) } else { v.parse::<u64>().ok().filter(|x| *x <= u32::MAX as u64).map(|x| x * 1000) };
        let mut viol = |sig: &str, text: String| {
            *counts.entry(sig.to_string()).or_insert(0) += 1;
            if !violations.iter().any(|x| x.signature == sig) {
                violations.push(Violation { signature: sig.to_string(), text: format!("{text} [command line: {how}]"), replay: json!({"max_drift_rate_arg": v, "command_line_context": c, "command_line": how, "observed": r}) });
            }
        };
        let parts: Vec<&str> = r.split(' ').collect();
        match (parts[0], expected) {
            ("DRIFT", Some(e)) => {
                let got: u64 = parts[1].parse().unwrap_or(u64::MAX);
                if e > u32::MAX as u64 {
                    nontrivial += 1;
                    *classes.entry("unrepresentable: published anyway").or_insert(0) += 1;
                    viol("C19:wrapped", format!("--max-drift-rate {v} ppm (= {e} ppb, not representable in the 32-bit field) was accepted and published as {got} ppb"));
                } else if got != e {
                    *classes.entry("representable: wrong value").or_insert(0) += 1;
                    viol("C19:wrong-value", format!("--max-drift-rate {v} ppm published as {got} ppb instead of {e}"));
                } else {
                    *classes.entry("representable: published exactly").or_insert(0) += 1;
                }
                if parts.get(2).map(|s| *s != "72").unwrap_or(false) {
                    viol("C19:segment-size", format!("segment created by the daemon is {} bytes", parts[2]));
                }
            }
            ("DRIFT", None) => {
                *classes.entry("invalid argument: published anyway").or_insert(0) += 1;
                viol("C19:invalid-argument-accepted", format!("--max-drift-rate={v} was accepted and {} ppb published", parts[1]));
            }
            ("EXIT", Some(e)) if e <= u32::MAX as u64 => {
                *classes.entry("representable: refused").or_insert(0) += 1;
                viol("C19:representable-value-refused", format!("--max-drift-rate {v} ppm ({e} ppb fits the field) made the daemon exit with status {}", parts.get(1).unwrap_or(&"?")));
            }
            ("EXIT", _) => {
                if parts.get(1) == Some(&"0") {
                    viol("C19:refused-with-status-0", format!("--max-drift-rate={v}: the daemon exited with status 0 without publishing"));
                }
                nontrivial += 1;
                *classes.entry("unrepresentable or invalid: refused at start-up").or_insert(0) += 1;
            }
            _ => machinery_failure(&format!("unparsable worker result '{r}' for value {v}")),
        }
        if samples.len() < 6 && *c == 0 && (v == "default" || v == "50" || v == "4294967" || v == "4294968" || v == "4294967295" || v == "-1") {
            samples.push(json!({"max_drift_rate_arg": v, "observed": r}));
        }
    }
    if ctx.replay.is_some() {
        println!("{:?}", all);
        return 0;
    }
    let coverage = cov(vec![
        ("evaluations", json!(all.len())),
        ("distinct_nontrivial", json!(nontrivial)),
        ("rule", json!("one run of the release binary per (value, way of passing it): with --max-drift-rate=V 'flag omitted', every 2003rd (thorough: every 31st) representable rate, small values, powers of two +/- 1, and for every k the two values on either side of the point where value x 1000 crosses k x 2^32 (any wrapping, truncating or saturating conversion differs from the exact one on at least one of them), 2^32-1, plus arguments clap must reject; all distinct; non-trivial = values whose ppb equivalent does not fit 32 bits")),
        ("samples", json!(samples)),
        ("outcome_classes", json!(classes)),
        ("command_line_contexts", json!(CONTEXTS.iter().enumerate().map(|(i, c)| json!({"how": c, "runs": per_context.get(&(i as u8)).copied().unwrap_or(0)})).collect::<Vec<_>>())),
        ("runs_skipped_because_sysfs_could_not_be_faked", json!(skipped)),
        ("private_mount_namespace", json!(ns)),
        ("binary", json!(bin)),
        ("violation_counts_by_class", json!(counts)),
        ("exhaustive", json!(false)),
        ("exhaustive_note", json!("all 2^32 values through a process would take weeks; the alphabet contains both sides of every wrap point")),
    ]);
    finish(ctx, Outcome { level: "exploration", coverage, assumptions: vec!["no chronyd in the namespace: the first poll fails at once and the writer thread publishes its first (Unknown) record, which carries the configured drift".into(), "the binary is built --release without the verification cfg from the current tree".into()], violations })
}
