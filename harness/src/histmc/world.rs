//! C01: end-to-end containment. A small physical world (true time, a realtime clock with an error
//! chosen by an adversary within the property's provisos, a monotonic clock ticking at the true
//! rate) around the real pipeline: wire replies -> real poller -> real updater/FSM -> real
//! ShmWriter -> file -> real ShmReader -> ClockBoundClient::now().

use super::pipeline::{self, decode_float, dyadic_f64, encode_float, null_reply_wire, tracking_wire, Answer, PollerLife, Query, TrackSpec};
use super::props::{Sink, S};
use crate::common::par;
use crate::common::rec::{status_name, status_num, Rec};
use crate::common::report::{cov, finish, machinery_failure, Ctx, Outcome, Tier, Violation};
use crate::common::vclock::{self, VClock};
use crate::common::{ts_ns, ts_to_ns};
use crate::gridmc::boundgrid::accepted_bound;
use clock_bound_client::ClockBoundClient;
use clock_bound_d::Message;
use clock_bound_shm::{ClockErrorBound, ShmWrite, ShmWriter};
use serde_json::{json, Value};
use std::cell::RefCell;
use std::collections::BTreeMap;
use std::path::{Path, PathBuf};
use std::rc::Rc;

/// true time at which the world starts (ns since the epoch)
const TAU0: i128 = 1_700_000_000 * S;

#[derive(Clone, Copy, Debug, PartialEq, Eq, Hash, PartialOrd, Ord)]
pub enum Kind {
    /// synchronised report, offset +7 ms, delay 100 ms, dispersion 20 ms
    Sp,
    /// synchronised report, offset -7 ms
    Sm,
    /// synchronised report, all zero
    S0,
    /// synchronised report, sub-nanosecond values
    Se,
    /// unsynchronised (leap 3)
    U,
    /// stale (leap 0, reference time older than 8 intervals)
    St,
    /// unusable (leap 4)
    X,
    /// no reply
    N,
    /// a reply that is not tracking data
    I,
}

pub const KINDS: [Kind; 9] = [Kind::Sp, Kind::Sm, Kind::S0, Kind::Se, Kind::U, Kind::St, Kind::X, Kind::N, Kind::I];

impl Kind {
    fn short(self) -> &'static str {
        match self {
            Kind::Sp => "S+",
            Kind::Sm => "S-",
            Kind::S0 => "S0",
            Kind::Se => "Se",
            Kind::U => "U",
            Kind::St => "St",
            Kind::X => "X",
            Kind::N => "N",
            Kind::I => "I",
        }
    }
    fn from_short(s: &str) -> Kind {
        *KINDS.iter().find(|k| k.short() == s).expect("kind")
    }
    fn is_sync(self) -> bool {
        matches!(self, Kind::Sp | Kind::Sm | Kind::S0 | Kind::Se)
    }
    fn spec(self, real_now: i128) -> Option<TrackSpec> {
        let t = |leap: u16, age: i128, off: f64, delay: f64, disp: f64| TrackSpec { ref_id: 0, leap, ref_time_ns: real_now - age, offset_bits: encode_float(off), delay_bits: encode_float(delay), disp_bits: encode_float(disp), interval_bits: encode_float(16.0) };
        match self {
            // chronyd's reference time only moves when its source is polled (every 16 s here): consecutive
            // daemon polls inside one window carry the same reference time with different offset/dispersion
            Kind::Sp => Some(t(0, S + (real_now - S).rem_euclid(16 * S), 0.007, 0.1, 0.02)),
            Kind::Sm => Some(t(0, S + (real_now - S).rem_euclid(16 * S), -0.007, 0.1, 0.02)),
            Kind::S0 => Some(t(0, S + (real_now - S).rem_euclid(16 * S), 0.0, 0.0, 0.0)),
            Kind::Se => Some(t(2, S + (real_now - S).rem_euclid(16 * S), -3e-10, 4e-10, 2e-10)),
            Kind::U => Some(t(3, S, 0.5, 1.0, 1.0)),
            Kind::St => Some(t(0, 129 * S, 0.007, 0.1, 0.02)),
            Kind::X => Some(t(4, S, 0.007, 0.1, 0.02)),
            Kind::N | Kind::I => None,
        }
    }
    /// largest clock error (ns, rounded down) a valid report of this kind allows
    fn valid_error_bound(self) -> i128 {
        let sp = self.spec(0).unwrap();
        // exact |offset| + dispersion + delay/2, rounded down to a whole nanosecond
        let (lo, _hi) = accepted_bound(&sp, 0).unwrap();
        // `lo` is the ceiling of (almost) the exact value: the floor is lo - 1 unless exact; use the value
        // the doubles give, rounded down, which never exceeds the exact sum
        let off = dyadic_f64(decode_float(sp.offset_bits)).abs();
        let x = (off + dyadic_f64(decode_float(sp.disp_bits)) + dyadic_f64(decode_float(sp.delay_bits)) / 2.0) * 1e9;
        (x.floor() as i128).min(lo)
    }
}

#[derive(Clone, Copy, Debug, PartialEq, Eq, Hash, PartialOrd, Ord)]
pub struct Ev {
    pub kind: Kind,
    /// time since the previous poll (or since the daemon start), ms
    pub gap_ms: i64,
    /// reply latency, ms
    pub latency_ms: i64,
    /// the daemon is restarted before this poll, after having been down for this long (0: no restart)
    pub restart_downtime_ms: i64,
}

#[derive(Clone, Debug)]
pub struct World {
    pub events: Vec<Ev>,
    pub drift_ppb: u32,
    pub uptime_at_start_s: i64,
    /// sign of the clock error chosen by the adversary
    pub sign: i128,
    /// a synchronised report is valid at the instant of the reply (true) or of the request (false)
    pub valid_at_reply: bool,
}

impl World {
    fn json(&self) -> Value {
        json!({"events": self.events.iter().map(|e| json!({"kind": e.kind.short(), "gap_ms": e.gap_ms, "reply_latency_ms": e.latency_ms, "restart_after_downtime_ms": e.restart_downtime_ms})).collect::<Vec<_>>(),
               "drift_ppb": self.drift_ppb, "uptime_at_start_s": self.uptime_at_start_s, "error_sign": self.sign as i64, "report_valid_at_reply": self.valid_at_reply})
    }
    fn from_json(v: &Value) -> World {
        World {
            events: v["events"].as_array().unwrap().iter().map(|e| Ev { kind: Kind::from_short(e["kind"].as_str().unwrap()), gap_ms: e["gap_ms"].as_i64().unwrap(), latency_ms: e["reply_latency_ms"].as_i64().unwrap(), restart_downtime_ms: e["restart_after_downtime_ms"].as_i64().unwrap() }).collect(),
            drift_ppb: v["drift_ppb"].as_u64().unwrap() as u32,
            uptime_at_start_s: v["uptime_at_start_s"].as_i64().unwrap(),
            sign: v["error_sign"].as_i64().unwrap() as i128,
            valid_at_reply: v["report_valid_at_reply"].as_bool().unwrap(),
        }
    }
}

/// The adversary's clock error as a function of true time. The provisos of the property bound it as
/// follows: at every valid synchronised report i, |e| <= B_i = |offset| + dispersion + delay/2; its
/// magnitude grows no faster than the configured drift (chrony's own corrections may shrink it faster,
/// never grow it). The largest admissible error at time t is therefore
///     min over the reports i received up to t of  B_i + drift * (t - t_i)
/// (1 s before the first report). The adversary realises exactly that, with a fixed sign.
#[derive(Clone, Debug)]
struct ErrTrack {
    anchors: Vec<(i128, i128)>, // (true time, bound on |error| at that time), ascending
    sign: i128,
    drift_ppb: i128,
}

impl ErrTrack {
    fn at(&self, tau: i128) -> i128 {
        let mut best: Option<i128> = None;
        for (ta, ba) in &self.anchors {
            if *ta <= tau {
                let v = ba + (self.drift_ppb * (tau - ta)).div_euclid(S);
                best = Some(best.map_or(v, |b: i128| b.min(v)));
            }
        }
        self.sign * best.unwrap_or(S)
    }
}

#[derive(Default, Clone)]
pub struct WStats {
    pub histories: u64,
    pub events: u64,
    pub client_evals: u64,
    pub trusted_evals: u64,
    pub histories_with_trust: u64,
    pub status_seen: BTreeMap<String, u64>,
    pub publications: u64,
}

impl WStats {
    fn merge(&mut self, o: &WStats) {
        self.histories += o.histories;
        self.events += o.events;
        self.client_evals += o.client_evals;
        self.trusted_evals += o.trusted_evals;
        self.histories_with_trust += o.histories_with_trust;
        self.publications += o.publications;
        for (k, v) in &o.status_seen {
            *self.status_seen.entry(k.clone()).or_insert(0) += v;
        }
    }
    fn to_json(&self) -> Value {
        json!({"histories": self.histories, "events": self.events, "client_evals": self.client_evals, "trusted_evals": self.trusted_evals, "histories_with_trust": self.histories_with_trust, "publications": self.publications, "status_seen": self.status_seen})
    }
    fn from_json(v: &Value) -> WStats {
        let u = |k: &str| v[k].as_u64().unwrap_or(0);
        WStats { histories: u("histories"), events: u("events"), client_evals: u("client_evals"), trusted_evals: u("trusted_evals"), histories_with_trust: u("histories_with_trust"), publications: u("publications"), status_seen: v["status_seen"].as_object().map(|o| o.iter().map(|(k, x)| (k.clone(), x.as_u64().unwrap_or(0))).collect()).unwrap_or_default() }
    }
}

struct Lifetime {
    /// (true time of the poll, true time at which its message is processed and published, event)
    polls: Vec<(i128, i128, Ev)>,
    messages: Vec<Message>,
}

/// Evaluate both clients at true time `tau` (the realtime clock is read at `tau`, the monotonic one
/// `read_gap` later).
#[allow(clippy::too_many_arguments)]
fn query(w: &World, path: &Path, long_lived: &mut Option<ClockBoundClient>, err: &ErrTrack, boot: i128, tau: i128, context: &str, last_kind: &str, st: &mut WStats, sink: &mut Sink, trusted_here: &mut bool) {
    query_gap(w, path, long_lived, err, boot, tau, 0, context, last_kind, st, sink, trusted_here)
}

/// `read_gap`: the client is preempted for that long between its two clock reads. The error shown by
/// the realtime clock is the adversary's at the end of the call; true time is judged at the instant
/// the realtime clock was actually read (found in the read log).
#[allow(clippy::too_many_arguments)]
fn query_gap(w: &World, path: &Path, long_lived: &mut Option<ClockBoundClient>, err: &ErrTrack, boot: i128, tau0: i128, read_gap: i128, context: &str, last_kind: &str, st: &mut WStats, sink: &mut Sink, trusted_here: &mut bool) {
    for fresh in [false, true] {
        let e = err.at(tau0 + read_gap);
        vclock::arm(VClock { real_ns: tau0 + e, mono_ns: tau0 - boot, auto_advance_ns: read_gap as i64, fail_errno: 0, fail_clock: -1 });
        if read_gap > 0 {
            vclock::log_start();
        }
        let r = if fresh {
            match ClockBoundClient::new_with_path(path.to_str().unwrap()) {
                Ok(mut c) => c.now().map_err(|e| format!("{:?}", e.kind)),
                Err(e) => Err(format!("open: {:?}", e.kind)),
            }
        } else {
            if long_lived.is_none() {
                *long_lived = ClockBoundClient::new_with_path(path.to_str().unwrap()).ok();
            }
            match long_lived.as_mut() {
                Some(c) => c.now().map_err(|e| format!("{:?}", e.kind)),
                None => Err("open".into()),
            }
        };
        let tau = if read_gap > 0 {
            let log = vclock::log_take();
            let idx = log.iter().filter(|x| x.0 != -100).position(|x| x.0 == libc::CLOCK_REALTIME || x.0 == libc::CLOCK_REALTIME_COARSE).unwrap_or(0) as i128;
            tau0 + idx * read_gap
        } else {
            tau0
        };
        vclock::disarm();
        st.client_evals += 1;
        if let Ok(n) = r {
            let status = status_num(n.clock_status);
            *st.status_seen.entry(status_name(status).to_string()).or_insert(0) += 1;
            if status != 0 {
                st.trusted_evals += 1;
                *trusted_here = true;
                let earliest = ts_to_ns(n.earliest.as_ref());
                let latest = ts_to_ns(n.latest.as_ref());
                if tau < earliest - 1 || tau > latest + 1 {
                    let miss = if tau < earliest { earliest - tau } else { tau - latest };
                    sink.add(
                        format!("C01:outside:{}:after-{}", status_name(status), last_kind),
                        format!("{context}: a {} client obtained [{earliest}, {latest}] with status {} while true time was {tau} ({miss} ns outside); clock error {e} ns", if fresh { "newly opened" } else { "long-lived" }, status_name(status)),
                        json!({"check": "C01", "world": w.json(), "true_time_ns": tau.to_string(), "query_context": context, "fresh_client": fresh, "earliest_ns": earliest.to_string(), "latest_ns": latest.to_string(), "status": status_name(status), "clock_error_ns": e.to_string()}),
                    );
                }
            }
        }
    }
}

pub fn run_world(w: &World, dir: &Path, st: &mut WStats, sink: &mut Sink) {
    let path = dir.join("shm");
    let _ = std::fs::remove_file(&path);
    let boot = TAU0 - w.uptime_at_start_s as i128 * S;
    let drift = w.drift_ppb as i128;
    // ---- plan: lifetimes, poll instants, the adversary's error track
    let mut err = ErrTrack { anchors: vec![(TAU0 - 10 * S, S)], sign: w.sign, drift_ppb: drift };
    let mut lifetimes: Vec<Vec<(i128, Ev)>> = vec![vec![]];
    let mut tau = TAU0;
    for ev in &w.events {
        if ev.restart_downtime_ms > 0 {
            tau += ev.restart_downtime_ms as i128 * 1_000_000;
            lifetimes.push(vec![]);
        }
        tau += ev.gap_ms as i128 * 1_000_000;
        lifetimes.last_mut().unwrap().push((tau, *ev));
        if ev.kind.is_sync() {
            let valid_at = if w.valid_at_reply { tau + ev.latency_ms as i128 * 1_000_000 } else { tau };
            err.anchors.push((valid_at, ev.kind.valid_error_bound()));
        }
        tau += ev.latency_ms as i128 * 1_000_000;
    }
    let horizon = tau;
    st.histories += 1;
    st.events += w.events.len() as u64;
    let mut long_lived: Option<ClockBoundClient> = None;
    let mut trusted_here = false;
    let mut last_kind = "start".to_string();
    let nl = lifetimes.len();
    for (li, polls) in lifetimes.iter().enumerate() {
        if polls.is_empty() {
            continue;
        }
        // ---- phase 1: the real poller of this lifetime
        let start = polls[0].0 - polls[0].1.gap_ms as i128 * 1_000_000;
        vclock::arm(VClock { real_ns: start + err.at(start), mono_ns: start - boot, auto_advance_ns: 0, fail_errno: 0, fail_clock: -1 });
        let mut life = Lifetime { polls: vec![], messages: vec![] };
        let r = std::panic::catch_unwind(std::panic::AssertUnwindSafe(|| {
            let mut poller = PollerLife::new();
            for (tp, ev) in polls {
                vclock::set_times(*tp + err.at(*tp), *tp - boot);
                let lat = ev.latency_ms as i128 * 1_000_000;
                let reply_real = *tp + lat + err.at(*tp + lat);
                let answer = match ev.kind {
                    Kind::N => Answer::Silent,
                    Kind::I => Answer::Wire(null_reply_wire(3)),
                    k => Answer::Wire(tracking_wire(&k.spec(reply_real).unwrap(), 3)),
                };
                let msgs = poller.poll_once(None, Query { answer, latency_ns: lat });
                for m in msgs {
                    life.polls.push((*tp, *tp + lat + 1_000_000, *ev));
                    life.messages.push(m);
                }
            }
        }));
        vclock::disarm();
        if let Err(p) = r {
            let m = p.downcast_ref::<&str>().map(|s| s.to_string()).or_else(|| p.downcast_ref::<String>().cloned()).unwrap_or_else(|| "panic".into());
            sink.add("C01:poller-panic".into(), format!("the poller panicked: {m}"), json!({"check": "C01", "world": w.json()}));
            return;
        }
        if life.messages.len() != polls.len() {
            sink.add("C01:message-count".into(), format!("{} polls produced {} messages", polls.len(), life.messages.len()), json!({"check": "C01", "world": w.json()}));
            return;
        }
        // queries against the segment as the previous lifetime left it, while this one starts up
        if li > 0 {
            let t = life.polls[0].1 - 1;
            query(w, &path, &mut long_lived, &err, boot, t, "just before the restarted daemon's first publication", &last_kind, st, sink, &mut trusted_here);
        }
        // ---- phase 2: the real writer-thread loop over the real ShmWriter; clients are evaluated from
        // inside the sink, between publications
        let first_p = life.polls[0].1;
        vclock::arm(VClock { real_ns: first_p + err.at(first_p), mono_ns: first_p - boot, auto_advance_ns: 0, fail_errno: 0, fail_clock: -1 });
        let writer = match ShmWriter::new(&path) {
            Ok(wr) => wr,
            Err(e) => machinery_failure(&format!("ShmWriter::new on a scratch file failed: {e}")),
        };
        let writer = Rc::new(RefCell::new(writer));
        let shared = Rc::new(RefCell::new((std::mem::take(st), std::mem::replace(sink, Sink::new()), long_lived.take(), trusted_here, last_kind.clone())));
        let sh2 = shared.clone();
        let wr2 = writer.clone();
        let pl = life.polls.clone();
        let is_last_life = li + 1 == nl;
        let next_life_start: Option<i128> = lifetimes.get(li + 1).and_then(|l| l.first()).map(|(t, e)| *t - e.gap_ms as i128 * 1_000_000);
        let errc = err.clone();
        let wc = w.clone();
        let pathc = path.clone();
        let r = std::panic::catch_unwind(std::panic::AssertUnwindSafe(|| {
            pipeline::run_updater(life.messages.clone(), w.drift_ppb, move |i, ceb: &ClockErrorBound| {
                wr2.borrow_mut().write(ceb);
                let mut g = sh2.borrow_mut();
                let (st, sink, long_lived, trusted_here, last_kind) = &mut *g;
                st.publications += 1;
                *last_kind = pl[i].2.kind.short().to_string();
                let p_i = pl[i].1;
                let p_next = pl.get(i + 1).map(|x| x.1);
                let rec = Rec::from_ceb(ceb);
                let as_of_tau = ts_ns(rec.as_of_s, rec.as_of_ns) + boot;
                let void_tau = ts_ns(rec.va_s, rec.va_ns) + boot;
                // query instants while this record is in force
                let end = p_next.or(next_life_start).unwrap_or(i128::MAX);
                let mut qs: Vec<(i128, &str)> = vec![(p_i, "at the publication"), (p_i + 1, "1 ns after the publication")];
                if end != i128::MAX {
                    qs.push((end - 2_000_000, "just before the next event"));
                }
                for (t, c) in [(as_of_tau + 5 * S - 1, "1 ns before as-of + 5 s"), (as_of_tau + 5 * S, "at as-of + 5 s"), (as_of_tau + 5 * S + 1, "1 ns after as-of + 5 s"), (void_tau - 1, "1 ns before void-after"), (void_tau, "at void-after"), (void_tau + 1, "1 ns after void-after")] {
                    if t > p_i && t < end.saturating_sub(2_000_000) {
                        qs.push((t, c));
                    }
                }
                if p_next.is_none() && is_last_life {
                    for (d, c) in [(3 * S, "3 s after the last event"), (400 * S, "400 s after the last event"), (999 * S, "999 s after the last event"), (1001 * S, "1001 s after the last event"), (3600 * S, "1 h after the last event")] {
                        qs.push((p_i + d, c));
                    }
                }
                for (t, c) in qs {
                    query(&wc, &pathc, long_lived, &errc, boot, t, c, last_kind, st, sink, trusted_here);
                }
                // a long preemption between the client's two clock reads
                query_gap(&wc, &pathc, long_lived, &errc, boot, p_i + 1000, 3 * S, "1 us after the publication, 3 s between the client's two clock reads", last_kind, st, sink, trusted_here);
                // the clock at which the next message is processed
                if let Some(pn) = p_next {
                    vclock::arm(VClock { real_ns: pn + errc.at(pn), mono_ns: pn - boot, auto_advance_ns: 0, fail_errno: 0, fail_clock: -1 });
                }
            });
        }));
        vclock::disarm();
        let g = Rc::try_unwrap(shared).ok().expect("sink closure dropped").into_inner();
        *st = g.0;
        *sink = g.1;
        long_lived = g.2;
        trusted_here = g.3;
        last_kind = g.4;
        drop(writer);
        crate::seqmc::engine::close_leaked_fds(&path);
        if let Err(p) = r {
            let m = p.downcast_ref::<&str>().map(|s| s.to_string()).or_else(|| p.downcast_ref::<String>().cloned()).unwrap_or_else(|| "panic".into());
            sink.add("C01:writer-panic".into(), format!("the writer thread loop panicked: {m}"), json!({"check": "C01", "world": w.json()}));
            return;
        }
        // while the daemon is down
        if let Some(nstart) = next_life_start {
            for (t, c) in [(nstart - 1, "while the daemon is down, just before it restarts")] {
                if t > life.polls.last().unwrap().1 {
                    query(w, &path, &mut long_lived, &err, boot, t, c, &last_kind, st, sink, &mut trusted_here);
                }
            }
        }
    }
    let _ = horizon;
    if trusted_here {
        st.histories_with_trust += 1;
    }
}

/// All event lists of length `len` with at most `devs` deviations from the default timing.
fn histories(len: usize, devs: usize, kinds: &[Kind]) -> Vec<Vec<Ev>> {
    let gap_devs: [i64; 3] = [5100, 4900, 1_001_000];
    let lat_devs: [i64; 2] = [10, 2900];
    let restart_devs: [i64; 3] = [100, 10_000, 2_000_000];
    let mut out: Vec<(Vec<Ev>, usize)> = vec![(vec![], 0)];
    for pos in 0..len {
        let mut next = vec![];
        for (h, d) in &out {
            for k in kinds {
                let base = Ev { kind: *k, gap_ms: 1000, latency_ms: 0, restart_downtime_ms: 0 };
                let mut push = |e: Ev, extra: usize| {
                    if d + extra <= devs {
                        let mut h2 = h.clone();
                        h2.push(e);
                        next.push((h2, d + extra));
                    }
                };
                push(base, 0);
                for g in gap_devs {
                    push(Ev { gap_ms: g, ..base }, 1);
                }
                for l in lat_devs {
                    push(Ev { latency_ms: l, ..base }, 1);
                }
                if pos > 0 {
                    for r in restart_devs {
                        push(Ev { restart_downtime_ms: r, ..base }, 1);
                    }
                }
            }
        }
        out = next;
    }
    out.into_iter().map(|x| x.0).collect()
}

pub fn run(ctx: &Ctx) -> i32 {
    crate::common::report::quiet_panics();
    pipeline::install();
    if let Err(e) = pipeline::wire_self_test() {
        machinery_failure(&e);
    }
    let base = ctx.scratch();
    if let Some(p) = &ctx.replay {
        let doc: Value = serde_json::from_str(&std::fs::read_to_string(p).expect("replay file")).expect("json");
        if doc["case"]["world"].is_null() {
            // the single-caller premise (common/apiprobe.rs): probe and, if it no longer holds, demonstrate again
            let (premise, torn) = crate::common::apiprobe::single_caller_premise(&base);
            println!("{}", serde_json::to_string_pretty(&premise).unwrap());
            println!("{}", torn.unwrap_or_else(|| "no torn answer observed in this run".into()));
            return 0;
        }
        let w = World::from_json(&doc["case"]["world"]);
        let run = || {
            let mut st = WStats::default();
            let mut sink = Sink::new();
            run_world(&w, &base, &mut st, &mut sink);
            (st.to_json().to_string(), sink.kept.iter().map(|v| format!("{} :: {}", v.signature, v.text)).collect::<Vec<_>>())
        };
        let a = run();
        let b = run();
        println!("world: {}", w.json());
        println!("stats: {}", a.0);
        for l in &a.1 {
            println!("  {l}");
        }
        if a.1.is_empty() {
            println!("  no violation");
        }
        if a != b {
            println!("NON-DETERMINISTIC replay");
            return 2;
        }
        return 0;
    }
    let tier = ctx.tier;
    let len = ctx.opt_usize("depth").unwrap_or(tier.pick(3, 4));
    let devs = ctx.opt_usize("deviations").unwrap_or(tier.pick(1, 2));
    let kinds: Vec<Kind> = KINDS.to_vec();
    let mut hs: Vec<Vec<Ev>> = vec![];
    for l in 1..=len {
        hs.extend(histories(l, devs, &kinds));
    }
    let mut configs: Vec<(u32, i64, i128, bool)> = vec![];
    for drift in [1000u32, 50_000] {
        for up in [100i64, 5000] {
            for sign in [1i128, -1] {
                for var in [false, true] {
                    configs.push((drift, up, sign, var));
                }
            }
        }
    }
    // one long history (the kinds over and over, a restart every 97th and a long gap every 53rd event), for
    // whatever only arms after many events; appended as the last work item
    let mut long: Vec<Ev> = vec![];
    for i in 0..2000usize {
        let mut e = Ev { kind: KINDS[(i * 7 + i / 9) % KINDS.len()], gap_ms: 1000, latency_ms: 0, restart_downtime_ms: 0 };
        if i % 53 == 52 {
            e.gap_ms = 5100;
        }
        if i % 31 == 30 {
            e.latency_ms = 2900;
        }
        if i % 97 == 96 {
            e.restart_downtime_ms = 100;
        }
        long.push(e);
    }
    hs.push(long);
    let n_items = hs.len();
    let parts = par::fork_reduce(
        n_items,
        |c| (WStats::default(), Sink::new(), { let d = base.join(format!("p{c}")); let _ = std::fs::create_dir_all(&d); d }, vec![]),
        |acc: &mut (WStats, Sink, PathBuf, Vec<Value>), i| {
            for (drift, up, sign, var) in &configs {
                // the "valid at request vs reply" dimension only matters when some reply takes time
                if *var && !hs[i].iter().any(|e| e.latency_ms > 0) {
                    continue;
                }
                let w = World { events: hs[i].clone(), drift_ppb: *drift, uptime_at_start_s: *up, sign: *sign, valid_at_reply: *var };
                run_world(&w, &acc.2, &mut acc.0, &mut acc.1);
                if acc.3.is_empty() && i % 1009 == 7 {
                    acc.3.push(w.json());
                }
            }
        },
        |acc| json!({"stats": acc.0.to_json(), "counts": acc.1.counts, "kept": acc.1.kept.iter().map(|v| json!({"sig": v.signature, "text": v.text, "replay": v.replay})).collect::<Vec<_>>(), "samples": acc.3}),
    );
    let mut st = WStats::default();
    let mut sink = Sink::new();
    let mut samples = vec![];
    for p in parts {
        st.merge(&WStats::from_json(&p["stats"]));
        if let Some(o) = p["counts"].as_object() {
            for (k, x) in o {
                *sink.counts.entry(k.clone()).or_insert(0) += x.as_u64().unwrap_or(0);
            }
        }
        for k in p["kept"].as_array().cloned().unwrap_or_default() {
            let sig = k["sig"].as_str().unwrap_or("").to_string();
            if !sink.kept.iter().any(|x| x.signature == sig) {
                sink.kept.push(Violation { signature: sig, text: k["text"].as_str().unwrap_or("").to_string(), replay: k["replay"].clone() });
            }
        }
        if samples.len() < 4 {
            samples.extend(p["samples"].as_array().cloned().unwrap_or_default());
        }
    }
    if st.trusted_evals == 0 {
        machinery_failure("no client evaluation produced a trusted interval: the exploration is vacuous");
    }
    let (premise, torn) = crate::common::apiprobe::single_caller_premise(&base);
    if let Some(t) = torn {
        sink.add("C01:client-shared-between-threads".into(), t, json!({"check": "C01", "phase": "single-caller premise (common/apiprobe.rs)", "observed": premise}));
    }
    let coverage = cov(vec![
        ("single_caller_premise", premise),
        ("states", json!(st.publications)),
        ("transitions", json!(st.events)),
        ("traces_validated_against_impl", json!(st.histories)),
        ("samples", json!(samples)),
        ("evaluations", json!(st.client_evals)),
        ("distinct_nontrivial", json!(st.trusted_evals)),
        ("rule", json!("every history of poll events up to the stated length over 9 answer kinds with at most the stated number of timing/restart deviations (gap 4.9/5.1/1001 s, reply latency 10 ms/2.9 s, restart after 0.1/10/2000 s) x drift {1, 50} ppm x uptime {100, 5000} s x adversary (error sign, report valid at request or reply); clients (long-lived and newly opened) queried at each publication, just before the next event, 1 ns either side of as-of+5 s and void-after, and up to 1 h after the last event; non-trivial = evaluations that returned a trusted status")),
        ("max_history_length", json!(len)),
        ("long_history_events", json!(2000)),
        ("max_deviations", json!(devs)),
        ("histories", json!(st.histories)),
        ("event_lists", json!(n_items)),
        ("publications", json!(st.publications)),
        ("client_evaluations", json!(st.client_evals)),
        ("trusted_evaluations", json!(st.trusted_evals)),
        ("histories_with_a_trusted_interval", json!(st.histories_with_trust)),
        ("status_seen", json!(st.status_seen)),
        ("violation_counts_by_class", json!(sink.counts)),
        ("exhaustive", json!(true)),
    ]);
    finish(
        ctx,
        Outcome {
            level: "model_checking",
            coverage,
            assumptions: vec![
                "world: the monotonic clock ticks at the true rate (CLOCK_MONOTONIC_COARSE granularity is not modelled); the realtime clock's error is chosen by an adversary: +/-1 s before the first synchronised report, +/-(|offset| + dispersion + delay/2) at each valid synchronised report (valid at the request or at the reply instant), drifting away from zero at the full configured rate in between".into(),
                "containment is linear in the error and in time, so the extremal trajectories and the endpoint / threshold query instants are the worst cases of the continuous family".into(),
                "the poller and the writer thread share only a FIFO: a lifetime's polls are run first, its messages then processed one by one at their own instants (thread interleavings: C15; torn reads: C02)".into(),
            ],
            violations: sink.kept,
        },
    )
}
