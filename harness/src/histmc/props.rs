//! E2 property drivers: C08, C09, C10, C12, C13 (C01 lives in world.rs).

use super::pipeline::{self, decode_float, encode_float, null_reply_wire, tracking_of, tracking_wire, Answer, PollerLife, Query, TrackSpec};
use crate::common::par;
use crate::common::rec::{status_name, status_num, Rec};
use crate::common::report::{cov, finish, machinery_failure, Ctx, Outcome, Tier, Violation};
use crate::common::ts_ns;
use crate::common::vclock::{self, VClock};
use crate::gridmc::boundgrid::accepted_bound;
use clock_bound_client::ClockBoundClient;
use clock_bound_d::{Message, PhcInfo};
use clock_bound_shm::{ShmWrite, ShmWriter};
use serde_json::{json, Value};
use std::collections::{BTreeMap, BTreeSet};

pub const S: i128 = 1_000_000_000;
pub const R0: i128 = 1_700_000_000 * S;

pub struct Sink {
    pub counts: BTreeMap<String, u64>,
    pub kept: Vec<Violation>,
}

impl Sink {
    pub fn new() -> Sink {
        Sink { counts: BTreeMap::new(), kept: vec![] }
    }
    pub fn add(&mut self, sig: String, text: String, replay: Value) {
        let n = self.counts.entry(sig.clone()).or_insert(0);
        *n += 1;
        if *n <= 1 {
            self.kept.push(Violation { signature: sig, text, replay });
        }
    }
    pub fn merge(&mut self, o: Sink) {
        for (k, v) in o.counts {
            *self.counts.entry(k).or_insert(0) += v;
        }
        for v in o.kept {
            if !self.kept.iter().any(|x| x.signature == v.signature) {
                self.kept.push(v);
            }
        }
    }
}

fn panic_text(p: Box<dyn std::any::Any + Send>) -> String {
    p.downcast_ref::<&str>().map(|s| s.to_string()).or_else(|| p.downcast_ref::<String>().cloned()).unwrap_or_else(|| "panic".into())
}

// ---------------------------------------------------------------------------------------------
// poll outcomes as the writer thread sees them

#[derive(Clone, Copy, Debug, PartialEq, Eq, Hash, PartialOrd, Ord)]
pub enum Out {
    S1,
    S2,
    U,
    St,
    X,
    Xf,
    Ng,
    N,
    Pg,
    P,
    /// stale by 2^32 ms + 3 s (an age that looks young again if it is narrowed to 32 bits of milliseconds)
    StWm,
    /// stale by 2^32 us + 1 s
    StWu,
}

pub const ALL_OUT: [Out; 12] = [Out::S1, Out::S2, Out::U, Out::St, Out::X, Out::Xf, Out::Ng, Out::N, Out::Pg, Out::P, Out::StWm, Out::StWu];
pub const NONSYNC_OUT: [Out; 10] = [Out::U, Out::St, Out::X, Out::Xf, Out::Ng, Out::N, Out::Pg, Out::P, Out::StWm, Out::StWu];

impl Out {
    pub fn name(self) -> &'static str {
        match self {
            Out::S1 => "synchronised report A",
            Out::S2 => "synchronised report B",
            Out::U => "unsynchronised report (leap 3)",
            Out::St => "stale report (reference time older than 8 intervals)",
            Out::X => "unusable report (leap 4)",
            Out::Xf => "unusable report (reference time in the future)",
            Out::Ng => "no reply, within grace",
            Out::N => "no reply, beyond grace",
            Out::Pg => "PHC read failure, within grace",
            Out::P => "PHC read failure, beyond grace",
            Out::StWm => "stale report (reference time 2^32 ms + 3 s old)",
            Out::StWu => "stale report (reference time 2^32 us + 1 s old)",
        }
    }
    pub fn short(self) -> &'static str {
        match self {
            Out::S1 => "S1",
            Out::S2 => "S2",
            Out::U => "U",
            Out::St => "St",
            Out::X => "X",
            Out::Xf => "Xf",
            Out::Ng => "Ng",
            Out::N => "N",
            Out::Pg => "Pg",
            Out::P => "P",
            Out::StWm => "StWm",
            Out::StWu => "StWu",
        }
    }
    pub fn from_short(s: &str) -> Out {
        *ALL_OUT.iter().find(|o| o.short() == s).expect("outcome name")
    }
    /// documented status class: 1 Synchronized, 2 FreeRunning, 0 Unknown
    pub fn class(self) -> u32 {
        match self {
            Out::S1 | Out::S2 => 1,
            Out::U | Out::St | Out::StWm | Out::StWu | Out::Ng | Out::Pg => 2,
            Out::X | Out::Xf | Out::N | Out::P => 0,
        }
    }
    fn spec(self, now_real: i128) -> Option<TrackSpec> {
        let t = |leap: u16, age: i128, off: f64, delay: f64, disp: f64| TrackSpec { ref_id: 0, leap, ref_time_ns: now_real - age, offset_bits: encode_float(off), delay_bits: encode_float(delay), disp_bits: encode_float(disp), interval_bits: encode_float(16.0) };
        match self {
            Out::S1 => Some(t(0, S, 0.007, 0.1, 0.02)),
            // a sub-second update interval (a refclock polled every 0.6 s): fresh as long as the reference
            // time is at most 8 x 0.6 = 4.8 s old
            Out::S2 => Some(TrackSpec { interval_bits: encode_float(0.6), ..t(1, 2 * S, 0.001, 0.03, 0.005) }),
            Out::U => Some(t(3, S, 0.0, 1.0, 1.0)),
            Out::St => Some(t(0, 129 * S, 0.007, 0.1, 0.02)),
            Out::StWm => Some(t(0, (1i128 << 32) * 1_000_000 + 3 * S, 0.007, 0.1, 0.02)),
            Out::StWu => Some(t(1, (1i128 << 32) * 1_000 + S, 0.007, 0.1, 0.02)),
            Out::X => Some(t(4, S, 0.007, 0.1, 0.02)),
            Out::Xf => Some(t(0, -S, 0.007, 0.1, 0.02)),
            _ => None,
        }
    }
    pub fn message(self, now_real: i128, phc: i64, as_of: libc::timespec) -> Message {
        match self {
            Out::Ng => Message::ChronyNotRespondingGracePeriod,
            Out::N => Message::ChronyNotResponding,
            Out::Pg => Message::PhcErrorBoundRetrievalFailedGracePeriod,
            Out::P => Message::PhcErrorBoundRetrievalFailed,
            o => Message::ClockErrorBoundData((tracking_of(&o.spec(now_real).unwrap()), phc, as_of)),
        }
    }
}

fn seq_name(seq: &[Out]) -> Vec<&'static str> {
    seq.iter().map(|o| o.short()).collect()
}

/// as-of instant attached to the i-th message of a lifetime that started at uptime `m0_s`
fn as_of_for(m0_s: i64, i: usize) -> libc::timespec {
    // spacing of successive as-of instants: 1 s (+1 ns) by default; C08 also runs its histories with 300 ms,
    // so that several successive reports are stamped within one and the same second (thirteenth round)
    let sp = AS_OF_SPACING_MS.with(|c| c.get());
    let t = m0_s as i128 * 1_000_000_000 + 123_456_789 + i as i128 + i as i128 * sp as i128 * 1_000_000;
    libc::timespec { tv_sec: (t / 1_000_000_000) as i64, tv_nsec: (t % 1_000_000_000) as i64 }
}
thread_local! { static AS_OF_SPACING_MS: std::cell::Cell<i64> = const { std::cell::Cell::new(1000) }; }

/// Run one lifetime's outcome sequence through the real process_messages; returns the published records.
fn publish_seq(seq: &[Out], drift: u32, phc: i64, m0_s: i64) -> Result<Vec<Rec>, String> {
    let now_real = R0;
    vclock::arm(VClock { real_ns: now_real, mono_ns: (m0_s as i128 + seq.len() as i128) * S, auto_advance_ns: 0, fail_errno: 0, fail_clock: -1 });
    let msgs: Vec<Message> = seq.iter().enumerate().map(|(i, o)| o.message(now_real, phc, as_of_for(m0_s, i))).collect();
    let r = std::panic::catch_unwind(|| pipeline::published_for(msgs, drift));
    vclock::disarm();
    r.map_err(panic_text)
}

// ---------------------------------------------------------------------------------------------
// C08

fn c08_check(seq: &[Out], drift: u32, phc: i64, m0_s: i64, sink: &mut Sink, states: &mut BTreeSet<(u32, u8, bool)>, trans: &mut BTreeSet<((u32, u8, bool), Out)>) {
    let doc = |i: usize, got: Option<&Rec>| json!({"check": "C08", "outcomes": seq_name(seq), "drift_ppb": drift, "phc_error_bound_ns": phc, "uptime_at_start_s": m0_s, "failing_publication": i, "published": got.map(|r| r.json())});
    let recs = match publish_seq(seq, drift, phc, m0_s) {
        Ok(r) => r,
        Err(e) => {
            sink.add("C08:panic".into(), format!("the writer thread panicked: {e}"), doc(0, None));
            return;
        }
    };
    if recs.len() != seq.len() {
        sink.add("C08:publication-count".into(), format!("{} outcomes resulted in {} publications", seq.len(), recs.len()), doc(recs.len().min(seq.len()), None));
        return;
    }
    // reference model
    let mut sample: Option<(usize, Out)> = None;
    let mut st = (0u32, 0u8, false);
    states.insert(st);
    for (i, o) in seq.iter().enumerate() {
        trans.insert((st, *o));
        if o.class() == 1 {
            sample = Some((i, *o));
        }
        st = (o.class(), match sample { None => 0, Some((_, Out::S1)) => 1, _ => 2 }, sample.is_some());
        states.insert(st);
        let r = &recs[i];
        if r.drift != drift {
            sink.add("C08:drift".into(), format!("publication {i} carries drift {} instead of the configured {drift}", r.drift), doc(i, Some(r)));
        }
        if let Some((j, so)) = sample {
            let a = as_of_for(m0_s, j);
            if (r.as_of_s, r.as_of_ns) != (a.tv_sec, a.tv_nsec) {
                let kind = if o.class() == 1 { "not-advanced-on-sync" } else { "not-frozen-on-loss" };
                sink.add(format!("C08:as-of:{kind}"), format!("after {:?} the record's as-of is ({}, {}); the most recent synchronised report (publication {j}) had ({}, {})", seq_name(&seq[..=i]), r.as_of_s, r.as_of_ns, a.tv_sec, a.tv_nsec), doc(i, Some(r)));
            }
            let (lo, hi) = accepted_bound(&so.spec(R0).unwrap(), phc).unwrap();
            if (r.bound as i128) < lo || (r.bound as i128) > hi {
                let kind = if o.class() == 1 { "not-advanced-on-sync" } else { "not-frozen-on-loss" };
                sink.add(format!("C08:bound:{kind}"), format!("after {:?} the record's bound is {} ns; the most recent synchronised report's is {lo}..{hi} ns", seq_name(&seq[..=i]), r.bound), doc(i, Some(r)));
            }
            if (r.va_s, r.va_ns) != (a.tv_sec + 1000, 0) {
                sink.add("C08:void-after".into(), format!("void-after is ({}, {}), expected ({}, 0) = as-of + 1000 s rounded down to a whole second", r.va_s, r.va_ns, a.tv_sec + 1000), doc(i, Some(r)));
            }
            if r.status != o.class() {
                sink.add(format!("C08:status:{}->{}", o.short(), status_name(r.status)), format!("after {:?} the published status is {}, documented: {}", seq_name(&seq[..=i]), status_name(r.status), status_name(o.class())), doc(i, Some(r)));
            }
        }
    }
}

fn sequences<T: Copy>(alpha: &[T], len: usize) -> Vec<Vec<T>> {
    let mut out: Vec<Vec<T>> = vec![vec![]];
    for _ in 0..len {
        let mut n = Vec::with_capacity(out.len() * alpha.len());
        for s in &out {
            for a in alpha {
                let mut t = s.clone();
                t.push(*a);
                n.push(t);
            }
        }
        out = n;
    }
    out
}

pub fn run_c08(ctx: &Ctx) -> i32 {
    let depth = ctx.opt_usize("depth").unwrap_or(ctx.tier.pick(5, 8));
    let cfgs: Vec<(u32, i64)> = vec![(1000, 0), (0, 12345), (50_000, 12345), (u32::MAX, 0)];
    // first symbol x configuration are the parallel work items
    let tails = sequences(&ALL_OUT, depth - 1);
    let items: Vec<(Out, usize)> = ALL_OUT.iter().flat_map(|o| (0..cfgs.len()).map(move |c| (*o, c))).collect();
    let deep_cfgs = if depth > 5 { 1 } else { cfgs.len() };
    let parts = par::map(items.len(), |i| {
        let (first, ci) = items[i];
        let mut sink = Sink::new();
        let mut states = BTreeSet::new();
        let mut trans = BTreeSet::new();
        let mut n = 0u64;
        if ci >= deep_cfgs {
            // the extra configurations are run at depth 5
            for t in sequences(&ALL_OUT, 4) {
                let mut seq = vec![first];
                seq.extend(t);
                c08_check(&seq, cfgs[ci].0, cfgs[ci].1, 5000, &mut sink, &mut states, &mut trans);
                n += 1;
            }
        } else {
            for t in &tails {
                let mut seq = vec![first];
                seq.extend(t.iter().cloned());
                c08_check(&seq, cfgs[ci].0, cfgs[ci].1, 5000, &mut sink, &mut states, &mut trans);
                n += 1;
            }
        }
        if ci == 0 {
            // the same histories (depth 5) with reports stamped 300 ms apart: up to four per second
            AS_OF_SPACING_MS.with(|c| c.set(300));
            for t in sequences(&ALL_OUT, 4) {
                let mut seq = vec![first];
                seq.extend(t);
                c08_check(&seq, cfgs[ci].0, cfgs[ci].1, 5000, &mut sink, &mut states, &mut trans);
                n += 1;
            }
            AS_OF_SPACING_MS.with(|c| c.set(1000));
        }
        (sink, states, trans, n)
    });
    let mut sink = Sink::new();
    let mut states = BTreeSet::new();
    let mut trans = BTreeSet::new();
    let mut n = 0;
    for (s, st, tr, k) in parts {
        sink.merge(s);
        states.extend(st);
        trans.extend(tr);
        n += k;
    }
    // phase 2: poll outcomes through the real poller AND the real writer loop (PHC configured): the
    // status must be the documented one for the outcome, where "within / beyond the grace period" is
    // what the age of the last good answer says
    let p2_depth = ctx.opt_usize("pipeline_depth").unwrap_or(ctx.tier.pick(4, 6));
    let mut p2_alpha: Vec<Step> = vec![];
    for (ans, readable) in [(Ans::TrackA, true), (Ans::TrackA, false), (Ans::TrackB, true), (Ans::Unsync, true), (Ans::Stale, true), (Ans::Silent, true)] {
        for gap in [1000i64, 5100] {
            p2_alpha.push(Step { ans, phc_readable: readable, gap_ms: gap, latency_ms: 0, phc_read_errno: 0, wall_step_ms: 0 });
        }
    }
    let p2_tails = sequences(&p2_alpha, p2_depth - 1);
    let base = ctx.scratch();
    let p2 = par::map(p2_alpha.len(), |a| {
        let dir = base.join(format!("c08-{a}"));
        let _ = std::fs::create_dir_all(&dir);
        let mut sink = Sink::new();
        let mut n = 0u64;
        for t in &p2_tails {
            let mut steps = vec![p2_alpha[a]];
            steps.extend(t.iter().cloned());
            n += 1;
            let doc = |k: usize| json!({"check": "C08", "phase": "pipeline", "steps": steps.iter().map(|s| json!({"answer": format!("{:?}", s.ans), "phc_file_readable": s.phc_readable, "gap_ms": s.gap_ms})).collect::<Vec<_>>(), "failing_step": k});
            let res = match poller_run(&steps, true, &dir, false) {
                Ok(r) => r,
                Err(e) => {
                    sink.add("C08:pipeline:poller-panic".into(), e, doc(0));
                    continue;
                }
            };
            check_nothing_held("C08", &mut sink, doc(0));
            let msgs: Vec<Message> = res.iter().flat_map(|(m, _)| m.iter().cloned()).collect();
            if msgs.len() != steps.len() {
                sink.add("C08:pipeline:message-count".into(), format!("{} polls, {} messages", steps.len(), msgs.len()), doc(0));
                continue;
            }
            vclock::arm(VClock { real_ns: R0 + 1000 * S, mono_ns: 6000 * S, auto_advance_ns: 0, fail_errno: 0, fail_clock: -1 });
            // the staleness test of the updater reads the realtime clock: process each message at its own instant
            let times: Vec<i128> = {
                let mut t = 0i128;
                steps.iter().map(|s| { t += s.gap_ms as i128 * 1_000_000; t }).collect()
            };
            vclock::set_times(R0 + times[0], 5000 * S + times[0]);
            let out = std::rc::Rc::new(std::cell::RefCell::new(vec![]));
            let o2 = out.clone();
            let tms = times.clone();
            let r = std::panic::catch_unwind(std::panic::AssertUnwindSafe(|| {
                pipeline::run_updater(msgs, 1000, move |i, c| {
                    o2.borrow_mut().push(Rec::from_ceb(c));
                    if let Some(t) = tms.get(i + 1) {
                        vclock::set_times(R0 + *t, 5000 * S + *t);
                    }
                })
            }));
            vclock::disarm();
            if r.is_err() {
                sink.add("C08:pipeline:writer-panic".into(), "the writer loop panicked".into(), doc(0));
                continue;
            }
            let recs = out.borrow().clone();
            if recs.len() != steps.len() {
                sink.add("C08:pipeline:publication-count".into(), format!("{} polls, {} publications", steps.len(), recs.len()), doc(0));
                continue;
            }
            let mut seen_sync = false;
            for (k, st) in steps.iter().enumerate() {
                let exp_class = &res[k].1;
                let expected_status = match st.ans {
                    Ans::TrackB => 1,
                    Ans::TrackA if st.phc_readable => 1,
                    Ans::TrackA => 2, // PHC read failure on a poll chronyd answered: the last good answer is 0 s old
                    Ans::Unsync | Ans::Stale => 2,
                    _ => if exp_class == "silent-grace" { 2 } else { 0 },
                };
                if expected_status == 1 {
                    seen_sync = true;
                }
                if seen_sync && recs[k].status != expected_status {
                    sink.add(
                        format!("C08:pipeline:status:{:?}{}->{}", st.ans, if st.phc_readable { "" } else { "-phc-unreadable" }, status_name(recs[k].status)),
                        format!("polls {:?}: after poll {k} the published status is {}, documented for this outcome: {}", steps.iter().map(|s| format!("{:?}{}@+{}ms", s.ans, if s.phc_readable { "" } else { "(PHC unreadable)" }, s.gap_ms)).collect::<Vec<_>>(), status_name(recs[k].status), status_name(expected_status)),
                        doc(k),
                    );
                    break;
                }
            }
        }
        (sink, n)
    });
    let mut p2_n = 0u64;
    for (s, k) in p2 {
        sink.merge(s);
        p2_n += k;
    }
    // phase 3: one long history (every ordered pair of outcome kinds, over and over: 11 520 outcomes in one
    // daemon lifetime) - for whatever only arms after many events (counters, state carried along)
    let mut long_seq: Vec<Out> = vec![];
    for _ in 0..40 {
        for a in ALL_OUT {
            for b in ALL_OUT {
                long_seq.push(a);
                long_seq.push(b);
            }
        }
    }
    {
        let mut st = BTreeSet::new();
        let mut tr = BTreeSet::new();
        c08_check(&long_seq, 1000, 12345, 5000, &mut sink, &mut st, &mut tr);
    }
    let sample_seq = vec![Out::S1, Out::Ng, Out::U, Out::S2, Out::N];
    let sample = publish_seq(&sample_seq, 1000, 12345, 5000).unwrap_or_default();
    let coverage = cov(vec![
        ("states", json!(states.len())),
        ("transitions", json!(trans.len())),
        ("traces_validated_against_impl", json!(n)),
        ("samples", json!([{"outcomes": seq_name(&sample_seq), "published": sample.iter().map(|r| r.json()).collect::<Vec<_>>()}])),
        ("evaluations", json!(n)),
        ("distinct_nontrivial", json!(n)),
        ("rule", json!("every sequence of poll outcomes of the stated depth over 10 outcome kinds, for each configuration; every sequence is distinct; every publication of every prefix is compared field by field with the reference updater")),
        ("depth", json!(depth)),
        ("as_of_spacing", json!({"default_ms": 1000, "also_ms": 300, "what": "successive reports stamped 1 s + 1 ns apart in every history; the depth-5 histories of the first configuration once more 300 ms + 1 ns apart (several reports within one second)"})),
        ("pipeline_phase", json!({"histories": p2_n, "depth": p2_depth, "step_alphabet": p2_alpha.len(), "what": "poll answers (tracking with the PHC's id and a readable / unreadable PHC file, another id, unsynchronised, stale, silence) x gap 1 s / 5.1 s through the real poller and the real writer loop; status compared with the documented one for the outcome"})),
        ("long_history_outcomes", json!(long_seq.len())),
        ("outcome_kinds", json!(ALL_OUT.iter().map(|o| o.name()).collect::<Vec<_>>())),
        ("configurations_drift_ppb_phc_ns", json!(cfgs)),
        ("reference_states", json!("(status class of the latest outcome, which synchronised report is frozen, whether one was seen)")),
        ("violation_counts_by_class", json!(sink.counts)),
        ("exhaustive", json!(true)),
    ]);
    finish(ctx, Outcome { level: "model_checking", coverage, assumptions: vec!["messages are hand-built per outcome kind (tracking data through the wire decoder) and processed by the real process_messages / ShmUpdater / FSM; the status clause is only applied once a synchronised report was seen (before that C09 is the judge)".into(), "bound compared with the exact C07 reference for the two synchronised reports (positive offsets)".into()], violations: sink.kept })
}

// ---------------------------------------------------------------------------------------------
// C09

fn client_status(path: &std::path::Path, client: Option<&mut ClockBoundClient>, mono_ns: i128) -> Result<u32, String> {
    vclock::arm(VClock { real_ns: R0, mono_ns, auto_advance_ns: 0, fail_errno: 0, fail_clock: -1 });
    let r = match client {
        Some(c) => c.now(),
        None => match ClockBoundClient::new_with_path(path.to_str().unwrap()) {
            Ok(mut c) => c.now(),
            Err(e) => Err(e),
        },
    };
    vclock::disarm();
    match r {
        Ok(n) => Ok(status_num(n.clock_status)),
        Err(e) => Err(format!("{:?}", e.kind)),
    }
}

pub fn run_c09(ctx: &Ctx) -> i32 {
    let depth = ctx.opt_usize("depth").unwrap_or(ctx.tier.pick(5, 8));
    let seqs = sequences(&NONSYNC_OUT, depth);
    let uptimes: Vec<i64> = vec![100, 5000];
    let chunk = 512;
    let nchunks = (seqs.len() + chunk - 1) / chunk;
    let parts = par::map(nchunks, |ci| {
        let mut sink = Sink::new();
        let mut distinct: BTreeSet<Rec> = BTreeSet::new();
        let mut n = 0u64;
        for seq in &seqs[ci * chunk..((ci + 1) * chunk).min(seqs.len())] {
            for m0 in &uptimes {
                n += 1;
                let doc = |i: usize, r: Option<&Rec>| json!({"check": "C09", "phase": "published record", "outcomes_since_start": seq_name(seq), "uptime_at_start_s": m0, "failing_publication": i, "published": r.map(|r| r.json())});
                match publish_seq(seq, 1000, 0, *m0) {
                    Ok(recs) => {
                        if recs.len() != seq.len() {
                            sink.add("C09:publication-count".into(), format!("{} outcomes, {} publications", seq.len(), recs.len()), doc(0, None));
                        }
                        for (i, r) in recs.iter().enumerate() {
                            distinct.insert(*r);
                            if r.status != 0 {
                                sink.add(
                                    format!("C09:trusted-before-first-sync:{}", seq[i].short()),
                                    format!("daemon start, then {:?}: publication {i} has status {} with bound {} ns and as-of ({}, {}) although no synchronised report was ever received", seq_name(&seq[..=i]), status_name(r.status), r.bound, r.as_of_s, r.as_of_ns),
                                    doc(i, Some(r)),
                                );
                                break;
                            }
                        }
                    }
                    Err(e) => sink.add("C09:panic".into(), format!("writer thread panicked: {e}"), doc(0, None)),
                }
            }
        }
        (sink, distinct, n)
    });
    let mut sink = Sink::new();
    let mut distinct: BTreeSet<Rec> = BTreeSet::new();
    let mut n = 0;
    for (s, d, k) in parts {
        sink.merge(s);
        distinct.extend(d);
        n += k;
    }
    // what clients see: every distinct record that was published before a first synchronised report,
    // through the real segment, fresh start and restart over an older good record, at several uptimes
    let dir = ctx.scratch();
    let mut client_evals = 0u64;
    for (ri, r) in distinct.iter().enumerate() {
        for restart in [false, true] {
            let path = dir.join(format!("c09-{ri}-{restart}"));
            let _ = std::fs::remove_file(&path);
            let mut old_client = None;
            if restart {
                let mut w = ShmWriter::new(&path).expect("writer");
                w.write(&Rec { as_of_s: 90, as_of_ns: 0, va_s: 1090, va_ns: 0, bound: 77_000_001, drift: 1000, reserved: 0, status: 1 }.to_ceb());
                drop(w);
                old_client = ClockBoundClient::new_with_path(path.to_str().unwrap()).ok();
            }
            let mut w = ShmWriter::new(&path).expect("writer");
            w.write(&r.to_ceb());
            for up in [5i128, 100, 999, 1001] {
                for long_lived in [false, true] {
                    if long_lived && old_client.is_none() {
                        continue;
                    }
                    client_evals += 1;
                    let got = client_status(&path, if long_lived { old_client.as_mut() } else { None }, up * S);
                    if let Ok(st) = got {
                        if st != 0 {
                            sink.add(
                                format!("C09:client-trusts-before-first-sync:{}", if restart { "restart" } else { "fresh" }),
                                format!("{} daemon start without any synchronised report: a client evaluating the published record {} at uptime {up} s obtains status {}", if restart { "after a" } else { "fresh" }, r.json(), status_name(st)),
                                json!({"check": "C09", "phase": "client", "published": r.json(), "restart": restart, "uptime_s": up as i64, "long_lived_client": long_lived}),
                            );
                        }
                    }
                }
            }
        }
    }
    // from chronyd and /sys to the record: the real polling loop AND the real writer loop, with the PHC configured and
    // chronyd naming it as its reference, for every way the error-bound attribute can be unreadable (missing; read(2)
    // failing with each of several errno values) and the other non-measurements (silence, another reply, an
    // unsynchronised report): as long as no complete measurement existed, everything published is Unknown
    let mut pipeline_cases = 0u64;
    {
        let mut alpha: Vec<Step> = vec![];
        for e in [0, libc::EIO, libc::EOPNOTSUPP, libc::ENOSYS, libc::EACCES, libc::ENODEV, libc::EBUSY, libc::EAGAIN, libc::ENOMEM, libc::EINVAL] {
            alpha.push(Step { ans: Ans::TrackA, phc_readable: false, gap_ms: 1000, latency_ms: 0, phc_read_errno: e, wall_step_ms: 0 });
        }
        for ans in [Ans::Silent, Ans::Other, Ans::Unsync] {
            alpha.push(Step { ans, phc_readable: true, gap_ms: 1000, latency_ms: 0, phc_read_errno: 0, wall_step_ms: 0 });
        }
        alpha.push(Step { ans: Ans::Silent, phc_readable: true, gap_ms: 5100, latency_ms: 0, phc_read_errno: 0, wall_step_ms: 0 });
        let seqs3 = sequences(&alpha, ctx.tier.pick(2, 3));
        let pdir = dir.join("c09-pipeline");
        let _ = std::fs::create_dir_all(&pdir);
        for steps in &seqs3 {
            pipeline_cases += 1;
            let doc = |k: usize| json!({"check": "C09", "phase": "poller and writer", "phc_configured": true, "failing_step": k,
                "steps": steps.iter().map(|s| json!({"answer": format!("{:?}", s.ans), "phc_file_readable": s.phc_readable, "phc_read_errno": s.phc_read_errno, "gap_ms": s.gap_ms, "reply_latency_ms": s.latency_ms})).collect::<Vec<_>>()});
            let res = match poller_run(steps, true, &pdir, false) {
                Ok(r) => r,
                Err(e) => {
                    sink.add("C09:pipeline:poller-panic".into(), e, doc(0));
                    continue;
                }
            };
            check_nothing_held("C09", &mut sink, doc(0));
            let msgs: Vec<Message> = res.iter().flat_map(|(m, _)| m.iter().cloned()).collect();
            let per_step: Vec<usize> = res.iter().map(|(m, _)| m.len()).collect();
            vclock::arm(VClock { real_ns: R0 + 10 * S, mono_ns: 5010 * S, auto_advance_ns: 0, fail_errno: 0, fail_clock: -1 });
            let r = std::panic::catch_unwind(|| pipeline::published_for(msgs, 1000));
            vclock::disarm();
            match r {
                Ok(recs) => {
                    let mut i = 0;
                    'steps: for (k, cnt) in per_step.iter().enumerate() {
                        for _ in 0..*cnt {
                            if let Some(rec) = recs.get(i) {
                                if rec.status != 0 {
                                    sink.add(format!("C09:pipeline:trusted-before-first-measurement:{:?}{}", steps[k].ans, if steps[k].phc_readable { String::new() } else { format!("-phc-errno-{}", steps[k].phc_read_errno) }),
                                        format!("daemon start with the PHC configured and chronyd's reference, polls {:?}: after poll {k} the published status is {} (bound {} ns) although no complete measurement ever existed", steps.iter().map(|s| if s.phc_readable { format!("{:?}", s.ans) } else if s.phc_read_errno == 0 { format!("{:?}(attribute missing)", s.ans) } else { format!("{:?}(read fails, errno {})", s.ans, s.phc_read_errno) }).collect::<Vec<_>>(), status_name(rec.status), rec.bound), doc(k));
                                    break 'steps;
                                }
                            }
                            i += 1;
                        }
                    }
                }
                Err(_) => sink.add("C09:pipeline:writer-panic".into(), "the writer loop panicked".into(), doc(0)),
            }
        }
    }
    // the daemon as it really restarts: the real writer loop publishing through the real ShmWriter (not a recording
    // sink) over whatever the previous lifetime left at the segment path - nothing, the placeholder of a lifetime
    // that never synchronised, a good record, a record left mid-update - followed by every sequence of
    // non-synchronised outcomes of depth <= 3; after every publication the segment is read like a client does
    let mut restart_cases = 0u64;
    {
        use clock_bound_shm::ShmReader;
        use std::os::unix::fs::FileExt;
        let short = sequences(&NONSYNC_OUT, 3.min(depth));
        let good = Rec { as_of_s: 90, as_of_ns: 0, va_s: 1090, va_ns: 0, bound: 77_000_001, drift: 1000, reserved: 0, status: 1 };
        let placeholder = Rec { as_of_s: 0, as_of_ns: 0, va_s: 1000, va_ns: 0, bound: 0, drift: 1000, reserved: 0, status: 0 };
        for (pi, prior) in ["no file", "placeholder of a lifetime that never synchronised", "a synchronised record", "a synchronised record, then killed mid-update", "placeholder, then killed mid-update"].iter().enumerate() {
            for seq in &short {
                for k in 1..=seq.len() {
                    if k < seq.len() && seq.len() > 1 && pi != 1 {
                        continue; // prefixes once (with the placeholder prior); full sequences for every prior
                    }
                    restart_cases += 1;
                    let path = dir.join(format!("c09-restart-{pi}"));
                    let _ = std::fs::remove_file(&path);
                    if pi > 0 {
                        let mut w = ShmWriter::new(&path).expect("writer");
                        w.write(&(if pi == 2 || pi == 3 { good } else { placeholder }).to_ceb());
                        drop(w);
                        if pi >= 3 {
                            if let Ok(f) = std::fs::OpenOptions::new().read(true).write(true).open(&path) {
                                let mut g = [0u8; 2];
                                let _ = f.read_exact_at(&mut g, 14);
                                let _ = f.write_all_at(&(u16::from_ne_bytes(g) | 1).to_ne_bytes(), 14);
                                let _ = f.write_all_at(&[0x33u8; 20], 16);
                            }
                        }
                    }
                    let m0 = 100i64;
                    vclock::arm(VClock { real_ns: R0, mono_ns: (m0 as i128 + k as i128) * S, auto_advance_ns: 0, fail_errno: 0, fail_clock: -1 });
                    let msgs: Vec<Message> = seq[..k].iter().enumerate().map(|(i, o)| o.message(R0, 0, as_of_for(m0, i))).collect();
                    let p2 = path.clone();
                    let r = std::panic::catch_unwind(move || {
                        let writer = ShmWriter::new(&p2).expect("writer");
                        pipeline::run_updater_with(msgs, 1000, writer);
                    });
                    vclock::disarm();
                    crate::seqmc::engine::close_leaked_fds(&path);
                    let doc = json!({"check": "C09", "phase": "restart through the real ShmWriter", "segment_before_the_restart": prior, "outcomes_since_start": seq_name(&seq[..k])});
                    if r.is_err() {
                        sink.add("C09:panic".into(), "the writer loop panicked".into(), doc);
                        continue;
                    }
                    let cpath = std::ffi::CString::new(path.to_str().unwrap()).unwrap();
                    let seen = ShmReader::new(&cpath).ok().and_then(|mut rd| rd.snapshot().ok().map(Rec::from_ceb));
                    if let Some(rec) = seen {
                        if rec.status != 0 {
                            sink.add(
                                format!("C09:restart:trusted-before-first-sync:{}", seq[k - 1].short()),
                                format!("segment before the restart: {prior}; restarted daemon, then {:?}: the segment now holds status {} with bound {} ns and as-of ({}, {}) although this daemon never received a synchronised report", seq_name(&seq[..k]), status_name(rec.status), rec.bound, rec.as_of_s, rec.as_of_ns),
                                doc.clone(),
                            );
                        }
                        for up in [5i128, 100, 999] {
                            if let Ok(st) = client_status(&path, None, up * S) {
                                if st != 0 {
                                    sink.add("C09:restart:client-trusts-before-first-sync".into(), format!("segment before the restart: {prior}; restarted daemon, then {:?}: a client at uptime {up} s obtains status {}", seq_name(&seq[..k]), status_name(st)), doc.clone());
                                }
                            }
                        }
                    }
                }
            }
        }
    }
    // a first "synchronised" report whose measurement cannot be represented (a PHC error bound near i64::MAX, chrony
    // floats at the top of their range): whatever the daemon does with it - dying is acceptable - it must not go on
    // advertising trust with the placeholder (as-of 0) that it still holds
    let mut extreme_cases = 0u64;
    {
        let tails = sequences(&NONSYNC_OUT, 2);
        let extremes: Vec<(&str, i64, TrackSpec)> = vec![
            ("PHC error bound i64::MAX", i64::MAX, Out::S1.spec(R0).unwrap()),
            ("PHC error bound i64::MAX - 10 ms", i64::MAX - 10_000_000, Out::S1.spec(R0).unwrap()),
            ("offset, delay and dispersion at the largest chrony float", 1, TrackSpec { offset_bits: 0x7EFF_FFFF, delay_bits: 0x7EFF_FFFF, disp_bits: 0x7EFF_FFFF, ..Out::S1.spec(R0).unwrap() }),
        ];
        for (what, phc, spec) in &extremes {
            for tail in &tails {
                extreme_cases += 1;
                vclock::arm(VClock { real_ns: R0, mono_ns: 110 * S, auto_advance_ns: 0, fail_errno: 0, fail_clock: -1 });
                let mut msgs: Vec<Message> = vec![Message::ClockErrorBoundData((tracking_of(spec), *phc, as_of_for(100, 0)))];
                msgs.extend(tail.iter().enumerate().map(|(i, o)| o.message(R0, 0, as_of_for(100, i + 1))));
                let r = std::panic::catch_unwind(|| pipeline::published_for(msgs, 1000));
                vclock::disarm();
                if let Ok(recs) = r {
                    for (i, rec) in recs.iter().enumerate() {
                        if rec.status != 0 && rec.as_of_s == 0 && rec.as_of_ns == 0 {
                            sink.add("C09:placeholder-trusted-after-rejected-measurement".into(), format!("first report: synchronised with {what}; then {:?}: publication {i} has status {} with the placeholder (as-of 0, bound {} ns) - no measurement was ever accepted", seq_name(tail), status_name(rec.status), rec.bound), json!({"check": "C09", "phase": "first synchronised report not representable", "first_report": what, "then": seq_name(tail), "failing_publication": i, "published": rec.json()}));
                            break;
                        }
                    }
                }
            }
        }
    }
    let coverage = cov(vec![
        ("first_report_not_representable_cases", json!(extreme_cases)),
        ("restarts_through_the_real_ShmWriter", json!(restart_cases)),
        ("poller_and_writer_lifetimes_without_a_measurement", json!({"lifetimes": pipeline_cases, "rule": "every sequence of 2 (thorough 3) polls over: chronyd names the configured PHC and its error-bound attribute is missing / fails read(2) with EIO, EOPNOTSUPP, ENOSYS, EACCES, ENODEV, EBUSY, EAGAIN, ENOMEM, EINVAL; silence (1 s and 5.1 s gaps); a non-tracking reply; an unsynchronised report - through the real polling loop and the real writer loop; every publication must be Unknown"})),
        ("states", json!(distinct.len().max(1))),
        ("transitions", json!(n * depth as u64)),
        ("traces_validated_against_impl", json!(n)),
        ("samples", json!([{"outcomes_since_start": seq_name(&seqs[seqs.len() / 3]), "published": publish_seq(&seqs[seqs.len() / 3], 1000, 0, 100).unwrap_or_default().iter().map(|r| r.json()).collect::<Vec<_>>()}])),
        ("evaluations", json!(n)),
        ("distinct_nontrivial", json!(n)),
        ("rule", json!("every sequence of non-synchronised poll outcomes of the stated depth (8 kinds) after a daemon start, at two machine uptimes; all distinct; then every distinct record so published is evaluated by the real client library on a real segment (fresh and restarted over an older good record) at uptimes 5/100/999/1001 s")),
        ("depth", json!(depth)),
        ("distinct_records_published_before_first_sync", json!(distinct.len())),
        ("client_evaluations", json!(client_evals)),
        ("violation_counts_by_class", json!(sink.counts)),
        ("exhaustive", json!(true)),
    ]);
    finish(ctx, Outcome { level: "model_checking", coverage, assumptions: vec!["a daemon (re)start is a new ShmUpdater over a new ShmWriter::new on the same file".into()], violations: sink.kept })
}

// ---------------------------------------------------------------------------------------------
// C10

/// Reference classification. None = don't care (age inside (floor(8I) s, 8I], which the code
/// resolves on the safe side and the statement does not resolve at sub-second granularity).
fn ref_classify(leap: u16, interval_bits: u32, age_ns: i128) -> Option<u32> {
    if age_ns < 0 {
        return Some(0);
    }
    match leap {
        0..=2 => {
            let d = decode_float(interval_bits);
            // threshold T = 8 * I seconds = coef * 2^(exp2 + 3) s ; compare age_ns with T * 1e9 exactly
            let e = d.exp2 + 3;
            let coef = d.coef.max(0) as i128;
            // age_ns <= coef * 2^e * 1e9 ?
            let not_older = if e >= 0 {
                if e > 60 { true } else { age_ns <= coef.saturating_mul(1 << e).saturating_mul(S) }
            } else if -e > 100 {
                age_ns == 0
            } else {
                // age_ns * 2^-e <= coef * 1e9
                match age_ns.checked_mul(1i128 << (-e).min(100)) {
                    Some(l) => l <= coef * S,
                    None => false,
                }
            };
            // floor(8I) in whole seconds
            let floor_s: i128 = if e >= 0 { if e > 60 { i128::MAX / S / 2 } else { coef << e } } else if -e > 100 { 0 } else { coef >> (-e) };
            if not_older {
                if age_ns > floor_s * S {
                    None
                } else {
                    Some(1)
                }
            } else {
                Some(2)
            }
        }
        3 => Some(2),
        _ => Some(0),
    }
}

pub fn run_c10(ctx: &Ctx) -> i32 {
    let tier = ctx.tier;
    let intervals: Vec<f64> = tier.pick(vec![0.0, 0.25, 1.0, 16.3, 1024.0], vec![0.0, 1e-9, 0.001, 0.125, 0.25, 0.3, 1.0, 2.0, 4.0, 16.0, 16.3, 64.0, 1000.0, 1024.0, 65536.0, 1e6]);
    let leap_step = ctx.opt_usize("leap_step").unwrap_or(1);
    let leaps: Vec<u32> = (0..65536u32).step_by(leap_step).collect();
    let chunk = 256;
    let nchunks = (leaps.len() + chunk - 1) / chunk;
    // the wall-clock instant at which the report is classified: nothing in the statement depends on it. R0 for the
    // full alphabet; for the leap codes around the documented ones, also the last and the first second of a UTC
    // day (where a leap second is inserted or deleted), the end of 2016-12-31 (a real insertion), noon, and either
    // side of 2^31 s
    let extra_nows: Vec<i128> = vec![R0 + 6399 * S + 200_000_000, R0 + 6399 * S + 999_999_999, R0 + 6400 * S, R0 + 6400 * S + 200_000_000, 1_483_228_799 * S + 500_000_000, 1_483_228_800 * S, R0 - 80_000 * S + 43_200 * S, ((1i128 << 31) - 1) * S + 500_000_000, ((1i128 << 31) + 10) * S];
    // the fields of a report that the classification must not depend on (stratum, source address, last/RMS
    // offset, frequencies, skew) come in four variants (pipeline::AUX_VARIANTS); variant 0 gets every leap code,
    // the others the codes around the documented ones (plus, thorough, every 257th)
    let naux = pipeline::AUX_VARIANTS.len();
    let parts = par::map(nchunks * naux + extra_nows.len(), |item| {
        let special = item >= nchunks * naux;
        let now = if special { extra_nows[item - nchunks * naux] } else { R0 };
        let (ci, aux) = if special { (0, 0) } else { (item % nchunks, pipeline::AUX_VARIANTS[item / nchunks]) };
        let small: Vec<u32> = (0..=8u32).chain(65530..65536).collect();
        let my_leaps: &[u32] = if special { &small } else { &leaps[ci * chunk..((ci + 1) * chunk).min(leaps.len())] };
        pipeline::set_aux_variant(aux);
        let mut sink = Sink::new();
        let mut n = 0u64;
        let mut nontrivial = 0u64;
        let mut classes: BTreeMap<String, u64> = BTreeMap::new();
        let mut sample = None;
        // one batch per chunk of leap codes: [S] then for every input: prefix, test
        let mut msgs: Vec<Message> = vec![];
        let mut expect: Vec<(usize, u16, f64, i128, u32, Option<u32>)> = vec![]; // (publication index, leap, interval, age, prefix class, expected)
        let as_of = libc::timespec { tv_sec: 5000, tv_nsec: 1 };
        msgs.push(Out::S1.message(now, 0, as_of));
        for &leap in my_leaps {
            let leap = leap as u16;
            if aux != 0 && tier == Tier::Quick && !(leap <= 8 || leap >= 65530) {
                continue;
            }
            for iv in &intervals {
                let ib = encode_float(*iv);
                let d = decode_float(ib);
                // exact threshold in ns (rounded down) for the age alphabet
                let t_floor: i128 = ((d.coef as f64) * 2f64.powi(d.exp2 + 3) * 1e9).floor() as i128;
                let floor_s: i128 = t_floor.div_euclid(S);
                let mut ages: Vec<i128> = vec![-1, -S, -500_000_000, -S + 1, -2 * S, 0, t_floor - 1, t_floor, t_floor + 1, t_floor + 2, (floor_s + 1) * S, floor_s * S, floor_s * S + 1, 1_000_000 * S];
                if leap <= 8 || tier == Tier::Thorough {
                    // ages at which a narrowed / re-scaled age would wrap and look fresh again
                    ages.extend(crate::gridmc::clientgrid::wrap_ages().into_iter().filter(|a| *a > 0));
                }
                ages.sort();
                ages.dedup();
                for age in ages {
                    if tier == Tier::Quick && leap > 8 && leap < 65530 && !(age == 0 || age == -1 || age == 1_000_000 * S) {
                        // quick tier: the full age alphabet for the leap codes around the documented ones, three ages for the rest
                        continue;
                    }
                    for prefix in [Out::S1, Out::U, Out::X] {
                        msgs.push(prefix.message(now, 0, as_of));
                        let t = TrackSpec { ref_id: 0, leap, ref_time_ns: now - age, offset_bits: encode_float(0.001), delay_bits: encode_float(0.01), disp_bits: encode_float(0.01), interval_bits: ib };
                        msgs.push(Message::ClockErrorBoundData((tracking_of(&t), 0, as_of)));
                        expect.push((msgs.len() - 1, leap, *iv, age, prefix.class(), ref_classify(leap, ib, age)));
                    }
                }
            }
        }
        vclock::arm(VClock { real_ns: now, mono_ns: 5001 * S, auto_advance_ns: 0, fail_errno: 0, fail_clock: -1 });
        let total = msgs.len();
        let r = std::panic::catch_unwind(|| pipeline::published_for(msgs, 1000));
        vclock::disarm();
        pipeline::set_aux_variant(0);
        match r {
            Ok(recs) if recs.len() == total => {
                for (pi, leap, iv, age, pclass, exp) in expect {
                    n += 1;
                    let got = recs[pi].status;
                    *classes.entry(format!("{}", status_name(got))).or_insert(0) += 1;
                    let doc = || json!({"check": "C10", "leap_status": leap, "update_interval_s": iv, "reference_time_age_ns": age.to_string(), "status_before": status_name(pclass), "published_status": status_name(got), "unrelated_report_fields_variant": aux, "wall_clock_ns": now.to_string()});
                    match exp {
                        Some(e) => {
                            if leap <= 3 || age < 0 {
                                nontrivial += 1;
                            }
                            if got != e {
                                let what = if age < 0 { "future-reference-time".to_string() } else if leap <= 2 { if e == 1 { "fresh-sync-report".into() } else { "stale-sync-report".into() } } else if leap == 3 { "leap-3".into() } else { "other-leap".into() };
                                sink.add(format!("C10:{what}:{}", status_name(got)), format!("leap status {leap}, update interval {iv} s, reference time {age} ns old, previous status {}{}: published {} but the report classifies as {}", status_name(pclass), if now == R0 { String::new() } else { format!(", wall clock {}.{:09} s ({:05}.{:03} s into the UTC day)", now / S, now % S, (now / S) % 86_400, (now % S) / 1_000_000) }, status_name(got), status_name(e)), doc());
                            }
                        }
                        None => {
                            if got == 0 {
                                sink.add("C10:window:Unknown".into(), format!("leap status {leap}, interval {iv} s, age {age} ns: published Unknown (Synchronized or FreeRunning expected)"), doc());
                            }
                        }
                    }
                    if sample.is_none() && leap == 2 {
                        sample = Some(doc());
                    }
                }
            }
            Ok(recs) => sink.add("C10:publication-count".into(), format!("{total} messages, {} publications", recs.len()), json!({"check": "C10", "chunk": ci})),
            Err(p) => sink.add("C10:panic".into(), format!("writer thread panicked: {}", panic_text(p)), json!({"check": "C10", "chunk": ci})),
        }
        (sink, n, nontrivial, classes, sample)
    });
    // the reference id is a field the classification must not depend on either: every id of the form 127.127.t.u
    // (chronyd's reference clocks and its `local` reference), the usual four-letter names, addresses of special
    // ranges, single bits - each with a fresh report (Synchronized), a stale one and one from the future
    let mut ref_ids: Vec<u32> = (0..65536u32).map(|x| 0x7F7F_0000 | x).collect();
    for name in [b"LOCL", b"GPS\0", b"PPS\0", b"PHC0", b"phc0", b"NMEA", b"SHM0", b"SOCK", b"INIT", b"STEP", b"RATE", b"DENY", b"XFAC", b"GOES", b"LOCA"] {
        ref_ids.push(u32::from_be_bytes(*name));
    }
    ref_ids.extend([0u32, 1, 0x7F00_0001, 0xA9FE_A97B, 0xA9FE_A9FE, 0x0A00_0001, 0xC0A8_0001, 0xE000_0001, 0xFFFF_FFFF, 0x8000_0000, 0x7FFF_FFFF, 0xFD00_EC2D]);
    ref_ids.extend((0..32).map(|b| 1u32 << b));
    ref_ids.sort();
    ref_ids.dedup();
    let id_chunks: Vec<&[u32]> = ref_ids.chunks(4096).collect();
    let id_parts = par::map(id_chunks.len(), |ci| {
        let mut sink = Sink::new();
        let now = R0;
        let as_of = libc::timespec { tv_sec: 5000, tv_nsec: 1 };
        let ib = encode_float(16.0);
        let ages: [i128; 3] = [S, 1_000_000 * S, -S];
        let mut msgs: Vec<Message> = vec![Out::S1.message(now, 0, as_of)];
        let mut expect: Vec<(usize, u32, i128)> = vec![];
        for &id in id_chunks[ci] {
            for age in ages {
                msgs.push(Out::S1.message(now, 0, as_of));
                let t = TrackSpec { ref_id: id, leap: 0, ref_time_ns: now - age, offset_bits: encode_float(0.001), delay_bits: encode_float(0.01), disp_bits: encode_float(0.01), interval_bits: ib };
                msgs.push(Message::ClockErrorBoundData((tracking_of(&t), 0, as_of)));
                expect.push((msgs.len() - 1, id, age));
            }
        }
        vclock::arm(VClock { real_ns: now, mono_ns: 5001 * S, auto_advance_ns: 0, fail_errno: 0, fail_clock: -1 });
        let total = msgs.len();
        let r = std::panic::catch_unwind(|| pipeline::published_for(msgs, 1000));
        vclock::disarm();
        let mut n = 0u64;
        match r {
            Ok(recs) if recs.len() == total => {
                for (pi, id, age) in expect {
                    n += 1;
                    if let Some(e) = ref_classify(0, ib, age) {
                        if recs[pi].status != e {
                            sink.add(format!("C10:reference-id:{}", status_name(recs[pi].status)), format!("leap status 0, update interval 16 s, reference time {age} ns old, reference id {id:#010X} ({}): published {} but the report classifies as {} - as it does with any other reference id", std::net::Ipv4Addr::from(id), status_name(recs[pi].status), status_name(e)),
                                json!({"check": "C10", "leap_status": 0, "update_interval_s": 16.0, "reference_time_age_ns": age.to_string(), "status_before": "Synchronized", "published_status": status_name(recs[pi].status), "unrelated_report_fields_variant": 0, "wall_clock_ns": now.to_string(), "reference_id": id}));
                        }
                    }
                }
            }
            Ok(recs) => sink.add("C10:publication-count".into(), format!("{total} messages, {} publications", recs.len()), json!({"check": "C10", "reference_id_chunk": ci})),
            Err(p) => sink.add("C10:panic".into(), format!("writer thread panicked: {}", panic_text(p)), json!({"check": "C10", "reference_id_chunk": ci})),
        }
        (sink, n)
    });
    let mut sink = Sink::new();
    let (mut n, mut nt) = (0, 0);
    let mut classes: BTreeMap<String, u64> = BTreeMap::new();
    let mut samples = vec![];
    let mut ref_id_cases = 0u64;
    for (s2, k) in id_parts {
        sink.merge(s2);
        ref_id_cases += k;
    }
    for (s, k, t, c, sm) in parts {
        sink.merge(s);
        n += k;
        nt += t;
        for (k, v) in c {
            *classes.entry(k).or_insert(0) += v;
        }
        if samples.len() < 3 {
            samples.extend(sm);
        }
    }
    // phase 2: the classification must be re-evaluated at every report, also when the report is
    // bit-identical to the previous one and only time has passed (a cached classification goes stale)
    let mut p2 = 0u64;
    for leap in [0u16, 1, 2, 3, 4, 65535] {
        for iv in &intervals {
            let ib = encode_float(*iv);
            let d = decode_float(ib);
            let t_floor: i128 = ((d.coef as f64) * 2f64.powi(d.exp2 + 3) * 1e9).floor() as i128;
            let ages: Vec<i128> = vec![-S, 0, (t_floor - 1).max(0), t_floor + S + 1, 1_000_000 * S];
            for (i1, a1) in ages.iter().enumerate() {
                for a2 in ages.iter().skip(i1 + 1) {
                    for with_gap_message in [false, true] {
                        p2 += 1;
                        let now1 = R0;
                        let now2 = R0 + (a2 - a1);
                        let as_of = libc::timespec { tv_sec: 5000, tv_nsec: 1 };
                        let t = TrackSpec { ref_id: 0, leap, ref_time_ns: now1 - a1, offset_bits: encode_float(0.001), delay_bits: encode_float(0.01), disp_bits: encode_float(0.01), interval_bits: ib };
                        let report = || Message::ClockErrorBoundData((tracking_of(&t), 0, as_of));
                        let mut msgs = vec![Out::S1.message(now1, 0, as_of), report()];
                        if with_gap_message {
                            msgs.push(Message::ChronyNotRespondingGracePeriod);
                        }
                        msgs.push(report());
                        let last = msgs.len() - 1;
                        vclock::arm(VClock { real_ns: now1, mono_ns: 5001 * S, auto_advance_ns: 0, fail_errno: 0, fail_clock: -1 });
                        let out = std::rc::Rc::new(std::cell::RefCell::new(vec![]));
                        let o2 = out.clone();
                        let r = std::panic::catch_unwind(std::panic::AssertUnwindSafe(|| {
                            pipeline::run_updater(msgs, 1000, move |i, c| {
                                o2.borrow_mut().push(Rec::from_ceb(c).status);
                                if i + 1 == last {
                                    // time passes before the second, identical report is processed
                                    vclock::set_times(now2, 5001 * S + (now2 - now1));
                                }
                            })
                        }));
                        vclock::disarm();
                        let got = out.borrow().clone();
                        let doc = json!({"check": "C10", "phase": "identical report repeated", "leap_status": leap, "update_interval_s": iv, "ages_ns": [a1.to_string(), a2.to_string()], "outage_message_between": with_gap_message, "published_statuses": got.iter().map(|x| status_name(*x)).collect::<Vec<_>>()});
                        if r.is_err() || got.len() != last + 1 {
                            sink.add("C10:repeat:panic-or-count".into(), "the writer loop panicked or skipped a publication".into(), doc);
                            continue;
                        }
                        for (k, age) in [(1usize, *a1), (last, *a2)] {
                            if let Some(e) = ref_classify(leap, ib, age) {
                                if got[k] != e {
                                    sink.add(
                                        format!("C10:repeat:{}-instead-of-{}", status_name(got[k]), status_name(e)),
                                        format!("the same report (leap {leap}, interval {iv} s) processed when its reference time is {a1} ns and then {a2} ns old: publication {k} is {} but the report classifies as {} at that age", status_name(got[k]), status_name(e)),
                                        doc.clone(),
                                    );
                                }
                            }
                        }
                    }
                }
            }
        }
    }
    n += p2;
    let coverage = cov(vec![
        ("evaluations", json!(n)),
        ("distinct_nontrivial", json!(nt)),
        ("identical_report_repeated_cases", json!(p2)),
        ("reference_id_cases", json!({"cases": ref_id_cases, "rule": "every reference id 127.127.t.u (65536), fifteen four-letter names, special addresses and single bits, each with a fresh, a stale and a future reference time (leap status 0, interval 16 s)"})),
        ("rule", json!("all leap-status values (step given) x update-interval alphabet x reference-time ages at -1 ns, -1 s, 0, 8I-1ns, 8I, 8I+1ns, floor(8I) s, floor(8I)+1 s, 1e6 s x status before (Synchronized / FreeRunning / Unknown, each after a first synchronised report); all distinct; non-trivial = leap status 0..3 or a future reference time")),
        ("samples", json!(samples)),
        ("leap_status_values", json!(leaps.len())),
        ("unrelated_report_fields", json!("4 variants of stratum / source address / last offset / RMS offset / frequency / residual frequency / skew (zero; small mixed signs; large positive; extreme encodings): variant 0 with every leap code, the others with leap codes 0..8, 65530..65535 (thorough: every leap code with every variant)")),
        ("leap_step", json!(leap_step)),
        ("update_intervals_s", json!(intervals)),
        ("published_status_classes", json!(classes)),
        ("violation_counts_by_class", json!(sink.counts)),
        ("exhaustive", json!(leap_step == 1)),
    ]);
    finish(ctx, Outcome { level: "exploration", coverage, assumptions: vec!["ages inside (floor(8I) s, 8I] are a don't-care: the code truncates 8I to whole seconds (safe side), the statement does not resolve sub-second intervals".into(), "virtual clock: 'now' is fixed, the reference time is now - age exactly".into()], violations: sink.kept })
}

// ---------------------------------------------------------------------------------------------
// C13 / C12 : the poller

#[derive(Clone, Copy, Debug, PartialEq, Eq, Hash, PartialOrd, Ord)]
pub enum Ans {
    TrackA,
    TrackB,
    Silent,
    Other,
    /// tracking data with leap status 3 (reference id B)
    Unsync,
    /// tracking data whose reference time is older than eight update intervals (reference id B)
    Stale,
}

#[derive(Clone, Copy, Debug, PartialEq, Eq, Hash, PartialOrd, Ord)]
pub struct Step {
    pub ans: Ans,
    pub phc_readable: bool,
    pub gap_ms: i64,
    pub latency_ms: i64,
    /// how an unreadable PHC file fails: 0 = the file does not exist; otherwise the file opens and read(2)
    /// fails with this errno (the way a sysfs attribute fails)
    pub phc_read_errno: i32,
    /// the realtime clock is stepped by this much (chronyd, an operator) just before this poll; the
    /// monotonic clock is unaffected
    pub wall_step_ms: i64,
}

const ID_A: u32 = 0x50484330;
const ID_B: u32 = 0x4e545031;

/// Digest of every field of a tracking report (the poller must forward what chronyd said, unmodified).
fn report_digest(t: &chrony_candm::reply::Tracking) -> u64 {
    use std::hash::{Hash, Hasher};
    let mut h = std::collections::hash_map::DefaultHasher::new();
    format!("{t:?}").hash(&mut h);
    h.finish()
}

/// What a readable PHC error-bound attribute can say instead of a number (Step::phc_read_errno = -(index + 1)).
const PHC_CONTENTS: [(&str, &[u8]); 9] = [
    ("empty (zero bytes)", b""), ("a newline only", b"\n"), ("blanks", b" \t \n"), ("a number with a unit", b"12345 ns\n"), ("two lines", b"5\n6\n"),
    ("hexadecimal", b"0x10\n"), ("a float", b"1e3\n"), ("not UTF-8", b"\xff\xfe12\n"), ("a NUL byte", b"\x0012\n"),
];

fn msg_class(m: &Message) -> String {
    match m {
        Message::ClockErrorBoundData((t, phc, as_of)) => format!("data(phc={phc},as_of={}.{:09},report={:016x})", as_of.tv_sec, as_of.tv_nsec, report_digest(t)),
        Message::ChronyNotRespondingGracePeriod => "silent-grace".into(),
        Message::ChronyNotResponding => "silent".into(),
        Message::PhcErrorBoundRetrievalFailedGracePeriod => "phc-failed-grace".into(),
        Message::PhcErrorBoundRetrievalFailed => "phc-failed".into(),
        other => format!("{other:?}"),
    }
}

thread_local! { static HELD_AFTER_LIFETIME: std::cell::Cell<(usize, usize)> = const { std::cell::Cell::new((0, 0)) }; }

/// After `poller_run`: descriptors the polling loop still holds on the PHC attribute (must be none).
fn check_nothing_held(prop: &str, sink: &mut Sink, doc: Value) {
    let (held, polls) = HELD_AFTER_LIFETIME.with(|h| h.replace((0, 0)));
    // (one descriptor kept open for the attribute would be a legitimate design; two or more is one per poll)
    if held >= 2 {
        sink.add(format!("{prop}:poller-keeps-descriptors"), format!("after a lifetime of {polls} polls the polling loop still holds {held} open descriptors on the PHC error-bound attribute: every poll that reads the attribute costs one, and once the process's limit is reached (1024 polls under systemd's default) the attribute cannot be opened any more - from then on every report with the PHC as reference is dropped, for good"), doc);
    }
}

fn c13_run(steps: &[Step], phc_cfg: bool, dir: &std::path::Path) -> Result<Vec<(Vec<String>, String)>, String> {
    poller_run(steps, phc_cfg, dir, true).map(|v| v.into_iter().map(|(m, e)| (m.iter().map(msg_class).collect(), e)).collect())
}

/// Run the steps through the real polling loop; per step: the messages sent to the writer thread
/// and the class of message the reference poller expects.
fn poller_run(steps: &[Step], phc_cfg: bool, dir: &std::path::Path, vary_report: bool) -> Result<Vec<(Vec<Message>, String)>, String> {
    // one invocation of the real polling loop for the whole sequence (PollerLife::run_lifetime): what the loop
    // keeps in its own variables between polls is kept. The PHC error bound is a sysfs-like file (fixed
    // metadata) that is there or not, readable or not, from one poll to the next.
    let phc_file = dir.join("phc_error_bound");
    let _ = std::fs::remove_file(&phc_file);
    let m0 = 5000 * S;
    vclock::arm(VClock { real_ns: R0, mono_ns: m0, auto_advance_ns: 0, fail_errno: 0, fail_clock: -1 });
    let steps_v: Vec<Step> = steps.to_vec();
    let r = std::panic::catch_unwind(std::panic::AssertUnwindSafe(|| {
        struct St {
            now: i128,
            real_off: i128,
            last_good: i128,
            poll_start: i128,
            expected: Vec<String>,
            digest: u64,
        }
        let st = std::rc::Rc::new(std::cell::RefCell::new(St { now: m0, real_off: 0, last_good: m0 - 5 * S, poll_start: m0, expected: vec![], digest: 0 }));
        let mut life = PollerLife::new();
        crate::common::iofault::track_opens_of("/phc_error_bound");
        let (s1, steps1, file1) = (st.clone(), steps_v.clone(), phc_file.clone());
        let step = move |k: usize| -> Query {
            let stp = steps1[k];
            let mut s = s1.borrow_mut();
            s.now += stp.gap_ms as i128 * 1_000_000;
            s.real_off += stp.wall_step_ms as i128 * 1_000_000;
            vclock::set_times(R0 + (s.now - m0) + s.real_off, s.now);
            s.poll_start = s.now;
            // (C13 only) the report's own content changes from poll to poll: interval from sub-1/8 s to 1024 s, both
            // offset signs, several delays - whatever it says must reach the writer thread as chronyd said it
            let (iv, off, dl) = if vary_report { ([16.0, 0.0625, 0.0, 0.3, 1024.0][k % 5], [0.001, -0.02, 0.0][k % 3], [0.01, 0.5, 0.0001, 0.0][k % 4]) } else { (16.0, 0.001, 0.01) };
            let spec = |id: u32| TrackSpec { ref_id: id, leap: 0, ref_time_ns: R0, offset_bits: encode_float(off), delay_bits: encode_float(dl), disp_bits: encode_float(0.01), interval_bits: encode_float(iv) };
            let real_now = R0 + (s.now - m0) + s.real_off;
            // chronyd's reference time moves when chronyd takes a sample (every 16 s here), not at every poll:
            // consecutive reports share it
            let fresh_ref = real_now - S - (s.now - m0).rem_euclid(16 * S);
            let sent: Option<TrackSpec> = match stp.ans {
                Ans::TrackA => Some(TrackSpec { ref_time_ns: fresh_ref, ..spec(ID_A) }),
                Ans::TrackB => Some(TrackSpec { ref_time_ns: fresh_ref, ..spec(ID_B) }),
                Ans::Unsync => Some(TrackSpec { leap: 3, ref_time_ns: fresh_ref, ..spec(ID_B) }),
                Ans::Stale => Some(TrackSpec { ref_time_ns: real_now - 129 * S, ..spec(ID_B) }),
                Ans::Silent | Ans::Other => None,
            };
            s.digest = sent.as_ref().map(|t| report_digest(&tracking_of(t))).unwrap_or(0);
            let answer = match (&sent, stp.ans) {
                (Some(t), _) => Answer::Wire(tracking_wire(t, 7)),
                (None, Ans::Other) => Answer::Wire(null_reply_wire(7)),
                _ => Answer::Silent,
            };
            if stp.phc_read_errno < 0 {
                // the attribute opens and reads without an error, but what it says is not a number of nanoseconds
                let _ = std::fs::write(&file1, PHC_CONTENTS[(-stp.phc_read_errno - 1) as usize].1);
            } else if stp.phc_readable || stp.phc_read_errno != 0 {
                // the device's error bound changes from one poll to the next
                pipeline::write_sysfs_like(&file1, 12345 + 7 * k as i64);
            } else {
                let _ = std::fs::remove_file(&file1);
            }
            if !stp.phc_readable && stp.phc_read_errno > 0 {
                crate::common::iofault::fail_reads_of("phc_error_bound", stp.phc_read_errno);
            }
            Query { answer, latency_ns: stp.latency_ms as i128 * 1_000_000 }
        };
        let (s2, steps2) = (st.clone(), steps_v.clone());
        let after = move |k: usize| {
            let stp = steps2[k];
            crate::common::iofault::clear();
            let mut s = s2.borrow_mut();
            s.now += stp.latency_ms as i128 * 1_000_000;
            // reference poller
            let as_of = format!("{}.{:09}", s.poll_start / S, s.poll_start % S);
            let expected = match stp.ans {
                Ans::TrackA | Ans::TrackB | Ans::Unsync | Ans::Stale => {
                    s.last_good = s.now;
                    let matches = phc_cfg && stp.ans == Ans::TrackA;
                    if matches && !stp.phc_readable {
                        "phc-failed*".to_string()
                    } else {
                        format!("data(phc={},as_of={as_of},report={:016x})", if matches { 12345 + 7 * k as i64 } else { 0 }, s.digest)
                    }
                }
                Ans::Silent | Ans::Other => {
                    if s.now - s.last_good < 5 * S {
                        "silent-grace".to_string()
                    } else {
                        "silent".to_string()
                    }
                }
            };
            s.expected.push(expected);
        };
        let phc = if phc_cfg { Some(PhcInfo { refid: ID_A, sysfs_error_bound_path: phc_file.clone() }) } else { None };
        let msgs = life.run_lifetime(phc, steps_v.len(), step, after);
        crate::common::iofault::clear();
        // what the lifetime holds on to when it is over: descriptors on the PHC attribute (opened by this thread since
        // `track_opens_of` and not closed - the interposed open/close in common/iofault.rs keep the account). A poll that leaves one open behaves the same for a thousand
        // polls and then never reads the attribute again - no bounded history shows that; the count after a few does.
        let held = crate::common::iofault::take_tracked();
        HELD_AFTER_LIFETIME.with(|h| h.set((held, steps_v.len())));
        let exp = st.borrow().expected.clone();
        let mut out: Vec<(Vec<Message>, String)> = msgs.into_iter().zip(exp).collect();
        // a lifetime that ended early (the loop returned by itself) has fewer iterations than steps
        while out.len() < steps_v.len() {
            out.push((vec![], "poll did not take place".into()));
        }
        out
    }));
    vclock::disarm();
    crate::common::iofault::clear();
    r.map_err(panic_text)
}

fn class_matches(got: &str, exp: &str) -> bool {
    if let Some(p) = exp.strip_suffix('*') {
        got.starts_with(p)
    } else {
        got == exp
    }
}

pub fn run_c13(ctx: &Ctx) -> i32 {
    let depth = ctx.opt_usize("depth").unwrap_or(ctx.tier.pick(3, 4));
    // 2^32 us + 1 s and 2^32 ms + 1 s: gaps after which an elapsed time narrowed to 32 bits looks short again
    let gaps: Vec<i64> = vec![100, 1000, 4900, 5000, 5100, 100_000, 4_295_968, 4_294_968_296];
    let mut alpha: Vec<Step> = vec![];
    for ans in [Ans::TrackA, Ans::TrackB, Ans::Silent, Ans::Other] {
        for phc_readable in [true, false] {
            if !phc_readable && ans != Ans::TrackA {
                continue; // the PHC file only matters when the report's reference is the PHC
            }
            for g in &gaps {
                alpha.push(Step { ans, phc_readable, gap_ms: *g, latency_ms: 0, phc_read_errno: 0, wall_step_ms: 0 });
            }
            // the PHC file opens but read(2) fails, with several errno values (one gap)
            if !phc_readable {
                for e in [libc::EIO, libc::EOPNOTSUPP, libc::EBUSY, libc::ENODEV] {
                    alpha.push(Step { ans, phc_readable, gap_ms: 1000, latency_ms: 0, phc_read_errno: e, wall_step_ms: 0 });
                }
            }
            // the realtime clock is stepped between polls (one gap): the grace period is a matter of elapsed, not wall, time
            if phc_readable {
                for ws in [-4000i64, 4500, -100_000] {
                    alpha.push(Step { ans, phc_readable, gap_ms: 1000, latency_ms: 0, phc_read_errno: 0, wall_step_ms: ws });
                }
            }
            // reply-latency deviations (one gap)
            alpha.push(Step { ans, phc_readable, gap_ms: 1000, latency_ms: 2900, phc_read_errno: 0, wall_step_ms: 0 });
            if ctx.tier == Tier::Thorough {
                alpha.push(Step { ans, phc_readable, gap_ms: 4000, latency_ms: 999, phc_read_errno: 0, wall_step_ms: 0 });
                alpha.push(Step { ans, phc_readable, gap_ms: 4000, latency_ms: 1000, phc_read_errno: 0, wall_step_ms: 0 });
            }
        }
    }
    let tails = sequences(&alpha, depth - 1);
    let base = ctx.scratch();
    // every step alphabet entry x PHC configured or not x variant of the report fields that should not matter
    let aux_list: Vec<u8> = pipeline::AUX_VARIANTS.to_vec();
    let items: Vec<(usize, bool, u8)> = (0..alpha.len()).flat_map(|a| [false, true].into_iter().flat_map(move |c| pipeline::AUX_VARIANTS.into_iter().map(move |x| (a, c, x)))).collect();
    let _ = &aux_list;
    let parts = par::map(items.len(), |i| {
        let (a, phc_cfg, aux) = items[i];
        pipeline::set_aux_variant(aux);
        let dir = base.join(format!("c13-{i}"));
        let _ = std::fs::create_dir_all(&dir);
        let mut sink = Sink::new();
        let mut n = 0u64;
        let mut classes: BTreeMap<String, u64> = BTreeMap::new();
        let mut graces = (0u64, 0u64);
        for t in &tails {
            let mut steps = vec![alpha[a]];
            steps.extend(t.iter().cloned());
            n += 1;
            let doc = |k: usize, got: &Vec<String>, exp: &str| json!({"check": "C13", "phc_configured": phc_cfg, "report_field_variant": aux, "steps": steps.iter().map(|s| json!({"answer": format!("{:?}", s.ans), "phc_file_readable": s.phc_readable, "phc_read_errno": s.phc_read_errno, "gap_ms": s.gap_ms, "reply_latency_ms": s.latency_ms, "realtime_clock_stepped_by_ms": s.wall_step_ms})).collect::<Vec<_>>(), "failing_step": k, "observed": got, "expected": exp});
            let r13 = c13_run(&steps, phc_cfg, &dir);
            check_nothing_held("C13", &mut sink, doc(0, &vec![], "no descriptor left open"));
            match r13 {
                Ok(res) => {
                    for (k, (got, exp)) in res.iter().enumerate() {
                        if got.len() != 1 {
                            sink.add("C13:message-count".into(), format!("step {k}: {} messages sent to the writer thread", got.len()), doc(k, got, exp));
                            break;
                        }
                        let key = got[0].split('(').next().unwrap_or("").to_string();
                        *classes.entry(key).or_insert(0) += 1;
                        if exp == "silent-grace" {
                            graces.0 += 1
                        } else if exp == "silent" {
                            graces.1 += 1
                        }
                        if !class_matches(&got[0], exp) {
                            let kind = if exp.starts_with("silent") { format!("outage:{}-instead-of-{}", got[0].split('(').next().unwrap_or(""), exp) } else if exp.starts_with("phc-failed") { "phc-failure-used-as-measurement".to_string() } else if got[0].starts_with("data") { "data-fields".to_string() } else { format!("{}-instead-of-data", got[0]) };
                            sink.add(format!("C13:{kind}"), format!("step {k} of {:?}: poller sent {} where {} is expected", steps.iter().map(|s| format!("{:?}@+{}ms", s.ans, s.gap_ms)).collect::<Vec<_>>(), got[0], exp), doc(k, got, exp));
                            break;
                        }
                    }
                }
                Err(e) => sink.add("C13:panic".into(), format!("poller panicked: {e}"), doc(0, &vec![], "")),
            }
        }
        pipeline::set_aux_variant(0);
        (sink, n, classes, graces)
    });
    let mut sink = Sink::new();
    let mut n = 0;
    let mut classes: BTreeMap<String, u64> = BTreeMap::new();
    let mut graces = (0, 0);
    for (s, k, c, g) in parts {
        sink.merge(s);
        n += k;
        for (k, v) in c {
            *classes.entry(k).or_insert(0) += v;
        }
        graces.0 += g.0;
        graces.1 += g.1;
    }
    // one long lifetime: the whole step alphabet, 150 times over, through one poller
    let mut long_steps: Vec<Step> = vec![];
    for _ in 0..150 {
        long_steps.extend(alpha.iter().cloned());
    }
    {
        let dir = base.join("c13-long");
        let _ = std::fs::create_dir_all(&dir);
        match c13_run(&long_steps, true, &dir) {
            Ok(res) => {
                for (k, (got, exp)) in res.iter().enumerate() {
                    if got.len() != 1 || !class_matches(&got[0], exp) {
                        sink.add("C13:long-lifetime".into(), format!("poll {k} of a {}-poll lifetime: poller sent {:?} where {} is expected", long_steps.len(), got, exp), json!({"check": "C13", "phase": "long lifetime", "failing_step": k, "observed": got, "expected": exp}));
                        break;
                    }
                }
            }
            Err(e) => sink.add("C13:panic".into(), format!("poller panicked in the long lifetime: {e}"), json!({"check": "C13", "phase": "long lifetime"})),
        }
    }
    // count-armed behaviour: each step kind a thousand times in a row (an hour-long outage, a PHC attribute that is
    // gone for a quarter of an hour ...), followed by every step kind once, in one lifetime each
    let mut repeated_polls = 0u64;
    {
        let reps: Vec<Vec<Step>> = alpha.iter().map(|a| { let mut v = vec![*a; 1000]; v.extend(alpha.iter().cloned()); v }).collect();
        let outs = par::map(reps.len(), |i| {
            let dir = base.join(format!("c13-rep-{i}"));
            let _ = std::fs::create_dir_all(&dir);
            c13_run(&reps[i], true, &dir)
        });
        for (i, o) in outs.into_iter().enumerate() {
            repeated_polls += reps[i].len() as u64;
            match o {
                Ok(res) => {
                    for (k, (got, exp)) in res.iter().enumerate() {
                        if got.len() != 1 || !class_matches(&got[0], exp) {
                            sink.add("C13:repeated-step".into(), format!("poll {k} of a lifetime that repeats {:?} 1000 times and then goes through every step kind: poller sent {:?} where {} is expected", alpha[i], got, exp), json!({"check": "C13", "phase": "one step kind repeated 1000 times", "step": format!("{:?}", alpha[i]), "failing_step": k, "observed": got, "expected": exp}));
                            break;
                        }
                    }
                }
                Err(e) => sink.add("C13:panic".into(), format!("poller panicked in a repeated-step lifetime: {e}"), json!({"check": "C13", "phase": "one step kind repeated 1000 times", "step": format!("{:?}", alpha[i])})),
            }
        }
    }
    // a readable attribute that does not hold a number: "cannot be read" as far as the error bound is concerned. The
    // report of such a poll must not be used as a measurement (the unmodified poller dies on it, which ends the
    // daemon - that is acceptable here, C15 sees to the rest)
    let mut content_cases = vec![];
    {
        let dir = base.join("c13-contents");
        let _ = std::fs::create_dir_all(&dir);
        for (vi, (what, _)) in PHC_CONTENTS.iter().enumerate() {
            for first_ok in [true, false] {
                let mut steps = vec![];
                if first_ok {
                    steps.push(Step { ans: Ans::TrackA, phc_readable: true, gap_ms: 1000, latency_ms: 0, phc_read_errno: 0, wall_step_ms: 0 });
                }
                steps.push(Step { ans: Ans::TrackA, phc_readable: true, gap_ms: 1000, latency_ms: 0, phc_read_errno: -(vi as i32) - 1, wall_step_ms: 0 });
                let r = poller_run(&steps, true, &dir, false);
                let _ = HELD_AFTER_LIFETIME.with(|h| h.replace((0, 0)));
                let outcome = match &r {
                    Err(_) => "the polling thread died".to_string(),
                    Ok(res) => {
                        let last = res.last().map(|(m, _)| m.iter().map(msg_class).collect::<Vec<_>>()).unwrap_or_default();
                        if last.iter().any(|c| c.starts_with("data(")) {
                            sink.add("C13:unparsable-phc-content-used".into(), format!("PHC configured and chronyd's reference; the error-bound attribute is readable but holds {what}: the poll's report was forwarded as a measurement ({:?}) although no error bound could be read from the attribute", last),
                                json!({"check": "C13", "phase": "attribute content", "phc_configured": true, "steps": steps.iter().map(|s| json!({"answer": format!("{:?}", s.ans), "phc_file_readable": s.phc_readable, "phc_read_errno": s.phc_read_errno, "gap_ms": s.gap_ms, "reply_latency_ms": s.latency_ms})).collect::<Vec<_>>(), "content": what}));
                        }
                        format!("{last:?}")
                    }
                };
                content_cases.push(json!({"attribute_holds": what, "after_a_good_poll": first_ok, "outcome": outcome}));
            }
        }
    }
    // end to end through the release binary (procmc/e2e.rs): the PHC clause as the daemon is really started
    let e2e = c13_end_to_end(ctx, &mut sink);
    let coverage = cov(vec![
        ("end_to_end_through_the_release_binary", e2e),
        ("readable_attribute_that_is_not_a_number", json!(content_cases)),
        ("long_lifetime_polls", json!(long_steps.len())),
        ("polls_in_lifetimes_that_repeat_one_step_kind_1000_times", json!(repeated_polls)),
        ("states", json!(alpha.len() * 2)),
        ("transitions", json!(n * depth as u64)),
        ("traces_validated_against_impl", json!(n)),
        ("samples", json!([{"steps": [format!("{:?}", alpha[0]), format!("{:?}", alpha[alpha.len() - 1])]}])),
        ("evaluations", json!(n)),
        ("distinct_nontrivial", json!(n)),
        ("rule", json!("every sequence of the stated depth of (answer kind x PHC file state x gap since the previous poll x reply latency x realtime clock stepped by -4 s / +4.5 s / -100 s before the poll) x PHC configured or not x 4 variants of the report fields no property gives a meaning to (stratum 0/1/2/15, source address, last/RMS offset, frequency, skew), through the real polling loop with the real ClockErrorBoundPoller under virtual time; all distinct")),
        ("depth", json!(depth)),
        ("step_alphabet_size", json!(alpha.len())),
        ("message_classes_observed", json!(classes)),
        ("outages_expected_in_grace_vs_beyond", json!([graces.0, graces.1])),
        ("violation_counts_by_class", json!(sink.counts)),
        ("exhaustive", json!(true)),
    ]);
    finish(ctx, Outcome { level: "model_checking", coverage, assumptions: vec!["the request to chronyd is replaced by a scripted answer decoded from wire bytes; std::time::Instant is virtual (clock_gettime interposed)".into(), "a PHC read failure may be reported as either of the two PHC-failure messages (the statement only says it is not used as a measurement)".into()], violations: sink.kept })
}

/// The PHC clause through `main()`: option handling, the sysfs lookup and the start-up all happen before the
/// library code the other phases drive. Five scenarios, a few real seconds each, run in parallel namespaces.
fn c13_end_to_end(ctx: &Ctx, sink: &mut Sink) -> Value {
    use crate::procmc::e2e::{self, PhcFile, Scenario, ID_OTHER, ID_PHC, IFACE};
    let bin = e2e::binary(ctx);
    if !std::path::Path::new(&bin).exists() {
        return json!({"skipped": format!("release binary {bin} not built")});
    }
    let phc_args: Vec<String> = vec!["-r".into(), "PHC0".into(), "-i".into(), IFACE.into()];
    let scenarios = vec![
        Scenario { name: "PHC configured and chronyd's reference, error bound attribute reads 12345", args: phc_args.clone(), chronyd: Some((ID_PHC, 0)), phc: PhcFile::Value(12345), preexisting: None, observe_ms: 2500, wait_for_synchronized: 1, ..Scenario::blank() },
        Scenario { name: "PHC configured and chronyd's reference, error bound attribute absent", args: phc_args.clone(), chronyd: Some((ID_PHC, 0)), phc: PhcFile::Absent, preexisting: None, observe_ms: 2500, ..Scenario::blank() },
        Scenario { name: "PHC configured and chronyd's reference, error bound attribute appears after 1.5 s", args: phc_args.clone(), chronyd: Some((ID_PHC, 0)), phc: PhcFile::AppearsAfter(1500, 777), preexisting: None, observe_ms: 4500, wait_for_synchronized: 1, ..Scenario::blank() },
        Scenario { name: "PHC configured, chronyd's reference is another source, error bound attribute absent", args: phc_args.clone(), chronyd: Some((ID_OTHER, 0)), phc: PhcFile::Absent, preexisting: None, observe_ms: 2500, wait_for_synchronized: 1, ..Scenario::blank() },
        Scenario { name: "PHC not configured, chronyd's reference is the PHC", args: vec![], chronyd: Some((ID_PHC, 0)), phc: PhcFile::Value(12345), preexisting: None, observe_ms: 2500, wait_for_synchronized: 1, ..Scenario::blank() },
        // reference ids are four bytes, case and all: "phc0" is not "PHC0"
        Scenario { name: "PHC configured as 'phc0' (lower case) and chronyd's reference is 'phc0'", args: vec!["--phc-ref-id".into(), "phc0".into(), "--phc-interface".into(), IFACE.into()], chronyd: Some((0x70686330, 0)), phc: PhcFile::Value(12345), preexisting: None, observe_ms: 2500, wait_for_synchronized: 1, ..Scenario::blank() },
        Scenario { name: "PHC configured as 'phc0' (lower case), chronyd's reference is 'PHC0' (another source)", args: vec!["-r".into(), "phc0".into(), "-i".into(), IFACE.into()], chronyd: Some((ID_PHC, 0)), phc: PhcFile::Absent, preexisting: None, observe_ms: 2500, wait_for_synchronized: 1, ..Scenario::blank() },
    ];
    let results: Vec<Result<Value, String>> = std::thread::scope(|s| {
        let hs: Vec<_> = scenarios.iter().map(|sc| { let bin = bin.clone(); s.spawn(move || e2e::run_scenario(&bin, sc)) }).collect();
        hs.into_iter().map(|h| h.join().unwrap_or_else(|_| Err("scenario thread panicked".into()))).collect()
    });
    let base = crate::gridmc::boundgrid::accepted_bound(&e2e::spec_for(ID_PHC, 0, 0), 0).unwrap();
    let mut report = vec![];
    for (i, (sc, r)) in scenarios.iter().zip(results).enumerate() {
        let v = match r {
            Ok(v) => v,
            Err(e) if e == "timeout" => machinery_failure(&format!("end-to-end scenario '{}' did not finish", sc.name)),
            Err(e) => machinery_failure(&format!("end-to-end scenario '{}': {e}", sc.name)),
        };
        if let Some(u) = v["unavailable"].as_str() {
            return json!({"skipped": format!("the sandbox does not allow it: {u}")});
        }
        if crate::procmc::e2e::too_slow(&v) {
            report.push(json!({"scenario": sc.name, "verdict": crate::procmc::e2e::slow_note(&v)}));
            continue;
        }
        let pubs = v["publications"].as_array().cloned().unwrap_or_default();
        let doc = json!({"check": "C13", "phase": "end to end through the release binary", "scenario": sc.name, "command_line": sc.args, "observed": v});
        // (status 1 = Synchronized) expected PHC addend per publication
        let addend = |p: &Value| -> Option<i64> {
            match (i, p["phc_attribute_present"].as_bool().unwrap_or(false)) {
                (0, _) => Some(12345),
                (1, _) => None,                 // never a measurement
                (2, false) => None,
                (2, true) => Some(777),
                (3, _) | (4, _) | (6, _) => Some(0),
                (5, _) => Some(12345),
                _ => None,
            }
        };
        let mut synced = 0;
        for p in &pubs {
            if p["status"] == 1 {
                synced += 1;
                let b = p["bound_ns"].as_i64().unwrap_or(-1) as i128;
                match addend(p) {
                    None => {
                        // tolerate the publication that raced with the attribute's appearance
                        if !(i == 2 && p["t_ms"].as_u64().unwrap_or(0) + 1100 >= 1500) {
                            sink.add("C13:e2e:phc-failure-used-as-measurement".into(), format!("{}: the daemon published a Synchronized record (bound {b} ns) although the PHC is chronyd's reference and its error bound cannot be read", sc.name), doc.clone());
                        }
                    }
                    Some(a) => {
                        let ok = |a: i64| b >= base.0 + a as i128 && b <= base.1 + a as i128;
                        if !(ok(a) || (i == 2 && ok(777))) {
                            sink.add("C13:e2e:phc-term".into(), format!("{}: Synchronized record with bound {b} ns; expected {}..{} ns plus a PHC error bound of {a} ns", sc.name, base.0, base.1), doc.clone());
                        }
                    }
                }
            }
        }
        if matches!(i, 0 | 3 | 4 | 5 | 6) && synced == 0 {
            sink.add("C13:e2e:never-synchronized".into(), format!("{}: no Synchronized record within {} ms ({} publications, daemon exit status {})", sc.name, sc.observe_ms, pubs.len(), v["daemon_exit_status"]), doc.clone());
        }
        if i == 2 && !pubs.iter().any(|p| p["status"] == 1 && p["phc_attribute_present"] == true) {
            sink.add("C13:e2e:phc-never-read-again".into(), format!("{}: three seconds after the attribute appeared there is still no Synchronized record", sc.name), doc.clone());
        }
        report.push(json!({"scenario": sc.name, "publications": pubs.len(), "synchronized_publications": synced, "daemon_exit_status": v["daemon_exit_status"], "machine": v["machine"]}));
    }
    json!({"scenarios": report, "stand_in_chronyd": "answers tracking requests on /var/run/chrony/chronyd.sock in a private mount namespace; reference time = real clock - 1 s"})
}

/// The daemon-side clause through the release binary and the real transport: a stand-in chronyd whose k-th reply
/// is recognisable in the published bound (its dispersion is 10 ms + k ms) and which notes when each request
/// arrived. Whatever report a publication carries, its as-of must not be later than the arrival of the request
/// that produced that report. Replies 300 ms late; the first reply 1.3 s late (beyond the client's timeout: it
/// retransmits); and chronyd reachable on its UDP command port only (private network namespace).
fn c12_end_to_end(ctx: &Ctx, sink: &mut Sink) -> Value {
    use crate::procmc::e2e::{self, Scenario, ID_OTHER};
    let bin = e2e::binary(ctx);
    if !std::path::Path::new(&bin).exists() {
        return json!({"skipped": format!("release binary {bin} not built")});
    }
    let scenarios = vec![
        Scenario { name: "every reply 20 ms late", chronyd: Some((ID_OTHER, 0)), tag_replies: true, reply_delays_ms: vec![20], observe_ms: 2500, wait_for_synchronized: 2, ..Scenario::blank() },
        Scenario { name: "every reply 60 ms late", chronyd: Some((ID_OTHER, 0)), tag_replies: true, reply_delays_ms: vec![60], observe_ms: 2500, wait_for_synchronized: 2, ..Scenario::blank() },
        Scenario { name: "every reply 300 ms late", chronyd: Some((ID_OTHER, 0)), tag_replies: true, reply_delays_ms: vec![300], observe_ms: 3500, wait_for_synchronized: 2, ..Scenario::blank() },
        Scenario { name: "first reply 1.3 s late, the others prompt", chronyd: Some((ID_OTHER, 0)), tag_replies: true, reply_delays_ms: vec![1300, 0], observe_ms: 4500, wait_for_synchronized: 2, ..Scenario::blank() },
        Scenario { name: "chronyd on UDP 127.0.0.1:323 only, first reply 1.3 s late", chronyd: Some((ID_OTHER, 0)), tag_replies: true, reply_delays_ms: vec![1300, 0], udp_only: true, observe_ms: 4500, ..Scenario::blank() },
    ];
    let results: Vec<Result<Value, String>> = std::thread::scope(|s| {
        let hs: Vec<_> = scenarios.iter().map(|sc| { let bin = bin.clone(); s.spawn(move || e2e::run_scenario(&bin, sc)) }).collect();
        hs.into_iter().map(|h| h.join().unwrap_or_else(|_| Err("scenario thread panicked".into()))).collect()
    });
    let mut report = vec![];
    for (sc, r) in scenarios.iter().zip(results) {
        let v = match r {
            Ok(v) => v,
            Err(e) => machinery_failure(&format!("C12 end-to-end scenario '{}': {e}", sc.name)),
        };
        if let Some(u) = v["unavailable"].as_str() {
            if sc.udp_only {
                report.push(json!({"scenario": sc.name, "skipped": u}));
                continue;
            }
            return json!({"skipped": format!("the sandbox does not allow it: {u}")});
        }
        if crate::procmc::e2e::too_slow(&v) {
            report.push(json!({"scenario": sc.name, "verdict": crate::procmc::e2e::slow_note(&v)}));
            continue;
        }
        let arrivals: Vec<i128> = v["chronyd_request_arrivals_mono_ns"].as_array().map(|a| a.iter().filter_map(|x| x.as_str().and_then(|s| s.parse().ok())).collect()).unwrap_or_default();
        let pubs = v["publications"].as_array().cloned().unwrap_or_default();
        let doc = json!({"check": "C12", "phase": "end to end through the release binary", "scenario": sc.name, "observed": v});
        let mut attributed = 0;
        for p in &pubs {
            if p["status"] != 1 {
                continue;
            }
            let b = p["bound_ns"].as_i64().unwrap_or(-1) as i128;
            let as_of: i128 = p["as_of_ns"].as_str().and_then(|s| s.parse().ok()).unwrap_or(0);
            let k = (0..arrivals.len()).find(|k| {
                let (lo, hi) = crate::gridmc::boundgrid::accepted_bound(&e2e::tagged_spec(ID_OTHER, 0, 0, *k), 0).unwrap();
                b >= lo && b <= hi
            });
            match k {
                Some(k) => {
                    attributed += 1;
                    if as_of > arrivals[k] + 2_000_000 {
                        sink.add("C12:e2e:as-of-after-the-request".into(), format!("{}: a publication carries chronyd's reply number {k} (bound {b} ns) with as-of {as_of} ns, {} ms AFTER that request reached chronyd", sc.name, (as_of - arrivals[k]) / 1_000_000), doc.clone());
                    }
                }
                None => sink.add("C12:e2e:unattributable-report".into(), format!("{}: a Synchronized publication with bound {b} ns matches none of the {} replies chronyd sent", sc.name, arrivals.len()), doc.clone()),
            }
        }
        if !sc.udp_only && attributed == 0 {
            sink.add("C12:e2e:nothing-published".into(), format!("{}: no Synchronized publication within {} ms", sc.name, sc.observe_ms), doc.clone());
        }
        report.push(json!({"scenario": sc.name, "requests_seen_by_chronyd": arrivals.len(), "synchronized_publications_attributed": attributed, "machine": v["machine"]}));
    }
    json!({"scenarios": report})
}

pub fn run_c12(ctx: &Ctx) -> i32 {
    let mut sink = Sink::new();
    let deltas: Vec<i64> = ctx.tier.pick(vec![0, 1, 1_000_000, 10 * S as i64], vec![0, 1, 2, 999, 1000, 1_000_000, 4_000_000, S as i64, 3 * S as i64, 10 * S as i64, 1000 * S as i64]);
    let lats: Vec<i128> = ctx.tier.pick(vec![0, 10_000_000, 2_900_000_000], vec![0, 1, 1000, 10_000_000, 999_999_999, 1_000_000_000, 2_900_000_000, 10_000_000_000]);
    let mut n = 0u64;
    let mut n_fault = 0u64;
    let mut fault_outcomes = [0u64; 3]; // report sent, nothing sent, thread died
    let mut samples = vec![];
    // daemon side
    let c12_dir = ctx.scratch().join("c12-phc");
    let _ = std::fs::create_dir_all(&c12_dir);
    let _ = std::fs::write(c12_dir.join("phc_ok"), "12345\n");
    for d in &deltas {
        for lat in &lats {
            for silent in [false, true] {
             // PHC configuration: none; configured and chronyd's reference (error bound file readable); configured but
             // not the reference; configured, the reference, file missing
             for phc_mode in 0..4u8 {
              if silent && phc_mode > 0 {
                  continue;
              }
              // fault: None, or "the k-th clock read of the poll fails once" (k over the reads a fault-free poll makes, +1)
              let mut faults: Vec<Option<u32>> = vec![None];
              let mut reads_without_fault = 0usize;
              let mut fi = 0;
              while fi < faults.len() {
                let fault = faults[fi];
                fi += 1;
                n += 1;
                let m0 = 5000 * S + 77;
                vclock::arm(VClock { real_ns: R0, mono_ns: m0, auto_advance_ns: 0, fail_errno: 0, fail_clock: -1 });
                let r = std::panic::catch_unwind(|| {
                    let mut life = PollerLife::new();
                    let mut c = vclock::get();
                    c.auto_advance_ns = *d;
                    vclock::set(c);
                    vclock::log_start();
                    if let Some(k) = fault {
                        vclock::fail_once(-1, k, libc::EINVAL);
                    }
                    let spec = TrackSpec { ref_id: if phc_mode == 2 { ID_B } else { ID_A }, leap: 0, ref_time_ns: R0, offset_bits: encode_float(0.001), delay_bits: encode_float(0.01), disp_bits: encode_float(0.01), interval_bits: encode_float(16.0) };
                    let phc = match phc_mode {
                        0 => None,
                        3 => Some(PhcInfo { refid: ID_A, sysfs_error_bound_path: c12_dir.join("phc_missing") }),
                        _ => Some(PhcInfo { refid: ID_A, sysfs_error_bound_path: c12_dir.join("phc_ok") }),
                    };
                    let msgs = life.poll_once(phc, Query { answer: if silent { Answer::Silent } else { Answer::Wire(tracking_wire(&spec, 1)) }, latency_ns: *lat });
                    (msgs, vclock::log_take())
                });
                vclock::disarm();
                let phc_name = ["not configured", "configured, chronyd's reference, error bound readable", "configured, not chronyd's reference", "configured, chronyd's reference, error bound file missing"][phc_mode as usize];
                let doc = json!({"check": "C12", "side": "daemon", "advance_per_clock_read_ns": d, "reply_latency_ns": lat.to_string(), "chronyd_silent": silent, "clock_read_that_fails_once": fault,
                    "phc": phc_name});
                if fault.is_some() {
                    // a transient clock failure may end the poll (error logged, nothing sent) or kill the thread (std's
                    // Instant panics); what it must not do is produce a report whose as-of was read after the request
                    n_fault += 1;
                    match r {
                        Ok((msgs, log)) => {
                            let mark = log.iter().position(|e| e.0 == -100).unwrap_or(log.len());
                            match msgs.first() {
                                Some(Message::ClockErrorBoundData((_, _, as_of))) => {
                                    fault_outcomes[0] += 1;
                                    let a = ts_ns(as_of.tv_sec, as_of.tv_nsec);
                                    if !log[..mark].iter().any(|e| e.0 >= 0 && e.0 != libc::CLOCK_REALTIME && e.1 == a) {
                                        sink.add("C12:as-of-not-a-reading-before-the-request".into(), format!("with the clock read number {} of the poll failing once: as-of {a} ns is not a monotonic reading taken before the request was issued (read log {:?}; -100 marks the request, below -200 a failed read)", fault.unwrap(), log), doc.clone());
                                    }
                                }
                                _ => fault_outcomes[1] += 1,
                            }
                        }
                        Err(_) => fault_outcomes[2] += 1,
                    }
                    continue;
                }
                if let Ok((_, log)) = &r {
                    reads_without_fault = log.iter().filter(|e| e.0 >= 0).count();
                    if faults.len() == 1 && (*d == 0 || *d == 1_000_000) && (*lat == 0 || *lat == 10_000_000) {
                        faults.extend((0..reads_without_fault as u32 + 1).map(Some));
                    }
                }
                match r {
                    Ok((msgs, log)) => {
                        let mark = log.iter().position(|e| e.0 == -100);
                        let first_mono = log.iter().position(|e| e.0 == libc::CLOCK_MONOTONIC_COARSE || e.0 == libc::CLOCK_MONOTONIC || e.0 == libc::CLOCK_MONOTONIC_RAW || e.0 == libc::CLOCK_BOOTTIME);
                        match (mark, first_mono) {
                            (Some(mk), Some(fm)) if fm < mk => {
                                if !silent {
                                    match msgs.first() {
                                        Some(Message::ClockErrorBoundData((_, _, as_of))) => {
                                            let a = ts_ns(as_of.tv_sec, as_of.tv_nsec);
                                            // some monotonic reading taken before the request must equal as-of
                                            if !log[..mk].iter().any(|e| e.0 != libc::CLOCK_REALTIME && e.1 == a) {
                                                sink.add("C12:as-of-not-a-reading-before-the-request".into(), format!("as-of {a} ns is not a monotonic reading taken before the request was issued (reads before: {:?})", &log[..mk]), doc.clone());
                                            }
                                        }
                                        Some(Message::PhcErrorBoundRetrievalFailed) | Some(Message::PhcErrorBoundRetrievalFailedGracePeriod) if phc_mode == 3 => {}
                                        other => sink.add("C12:no-data-message".into(), format!("expected a data message, got {other:?}"), doc.clone()),
                                    }
                                }
                            }
                            (Some(_), _) => sink.add("C12:monotonic-read-after-request".into(), format!("no monotonic clock reading precedes the request to chronyd (read log {:?})", log), doc.clone()),
                            (None, _) => sink.add("C12:no-request".into(), "the poller did not query chronyd".into(), doc.clone()),
                        }
                        if samples.len() < 2 {
                            samples.push(json!({"side": "daemon", "advance_per_clock_read_ns": d, "clock_read_log": log.iter().map(|e| json!([e.0, e.1.to_string()])).collect::<Vec<_>>()}));
                        }
                    }
                    Err(p) => sink.add("C12:panic".into(), panic_text(p), doc),
                }
              }
              let _ = reads_without_fault;
             }
            }
        }
    }
    // client side
    let rec = Rec { as_of_s: 5000, as_of_ns: 0, va_s: 6000, va_ns: 0, bound: 77_000_001, drift: 50_000, reserved: 0, status: 1 };
    let dir = ctx.scratch();
    let path = dir.join("c12");
    let _ = std::fs::remove_file(&path);
    let mut w = ShmWriter::new(&path).expect("writer");
    w.write(&rec.to_ceb());
    let mut client = ClockBoundClient::new_with_path(path.to_str().unwrap()).expect("client");
    for d in &deltas {
        // record ages at the first clock read: ordinary ones, and ones just before as-of so that the clock
        // crosses the causality window *during* the call (a retry path, if there is one, is then taken)
        let dd = *d as i128;
        let mut start_ages: Vec<i128> = vec![0, 1, S, 4 * S, -999, -1001, -1001 - dd, -1001 - 2 * dd, -1000 - dd / 2, -3 * dd, -2 * dd - 1, -dd - 1];
        start_ages.sort();
        start_ages.dedup();
        for age in start_ages {
            for route in ["record", "client"] {
                n += 1;
                let (real0, mono0) = (R0 + 123, 5000 * S + age);
                vclock::arm(VClock { real_ns: real0, mono_ns: mono0, auto_advance_ns: *d, fail_errno: 0, fail_clock: -1 });
                vclock::log_start();
                let r = if route == "record" {
                    rec.to_ceb().now().map(|(e, l, _)| (crate::common::ts_to_ns(&e), crate::common::ts_to_ns(&l))).map_err(|e| format!("{e:?}"))
                } else {
                    client.now().map(|n| (crate::common::ts_to_ns(n.earliest.as_ref()), crate::common::ts_to_ns(n.latest.as_ref()))).map_err(|e| format!("{:?}", e.kind))
                };
                let log = vclock::log_take();
                vclock::disarm();
                let doc = json!({"check": "C12", "side": "client", "route": route, "advance_per_clock_read_ns": d, "age_at_first_read_ns": age.to_string(), "clock_read_log": log.iter().map(|e| json!([e.0, e.1.to_string()])).collect::<Vec<_>>()});
                let is_real = |c: i32| c == libc::CLOCK_REALTIME || c == libc::CLOCK_REALTIME_COARSE;
                let reads: Vec<(i32, i128)> = log.iter().filter(|e| e.0 >= 0).cloned().collect();
                match r {
                    Ok((earliest, latest)) => {
                        let h = (latest - earliest) / 2;
                        let centre = earliest + h;
                        // the realtime reading the interval is centred on, and the monotonic reading taken after it
                        let used_real = reads.iter().rposition(|e| is_real(e.0) && e.1 == centre);
                        match used_real {
                            None => sink.add("C12:client-centre-not-the-realtime-reading".into(), format!("interval centred on {centre}, which is no realtime reading of the call (reads {:?})", reads), doc.clone()),
                            Some(i) => match reads.iter().skip(i + 1).find(|e| !is_real(e.0)) {
                                None => {
                                    if dd > 0 || !reads.iter().take(i).all(|e| is_real(e.0)) || reads.len() < 2 {
                                        sink.add("C12:client-reads-monotonic-first".into(), format!("the interval is centred on the realtime reading number {i} of the call, but no monotonic reading follows it (read order {:?}): a delay between the two reads shrinks the interval", reads.iter().map(|e| e.0).collect::<Vec<_>>()), doc.clone());
                                    }
                                }
                                Some(m) => {
                                    let need = rec.bound as i128 + (rec.drift as i128 * (m.1 - ts_ns(rec.as_of_s, rec.as_of_ns)).max(0)).div_euclid(S);
                                    if h < need - 1 {
                                        sink.add("C12:client-width-uses-earlier-reading".into(), format!("half-width {h} ns is below bound + drift x (monotonic reading taken after the realtime one - as-of) = {need} ns"), doc.clone());
                                    }
                                }
                            },
                        }
                        if dd == 0 {
                            let ri = reads.iter().position(|e| is_real(e.0));
                            let mi = reads.iter().position(|e| !is_real(e.0));
                            if let (Some(ri), Some(mi)) = (ri, mi) {
                                if mi < ri {
                                    sink.add("C12:client-reads-monotonic-first".into(), format!("clock read order {:?}: the monotonic clock is read before the realtime clock", reads.iter().map(|e| e.0).collect::<Vec<_>>()), doc.clone());
                                }
                            }
                        }
                    }
                    Err(e) => {
                        // an error is only legitimate for a reading that precedes as-of by the blur or more
                        if reads.iter().filter(|e| !is_real(e.0)).all(|m| m.1 > ts_ns(rec.as_of_s, rec.as_of_ns) - 1000) {
                            sink.add("C12:client-error".into(), format!("now() failed ({e}) although no monotonic reading precedes as-of by the blur"), doc.clone());
                        }
                    }
                }
                if samples.len() < 4 {
                    samples.push(json!({"side": "client", "route": route, "advance_per_clock_read_ns": d, "clock_read_log": log.iter().map(|e| json!([e.0, e.1.to_string()])).collect::<Vec<_>>()}));
                }
            }
        }
    }
    // daemon side, histories: whole lifetimes of the real polling loop (one invocation per history, so what the loop
    // carries from one poll to the next is carried) over answers / silences / late replies; every report that reaches
    // the writer thread must carry, as its as-of, the monotonic reading of the start of ITS poll. A single poll per
    // lifetime (above) cannot show an as-of that depends on what the previous poll saw.
    let hist_depth = ctx.tier.pick(3, 4);
    let mut halpha: Vec<Step> = vec![];
    for ans in [Ans::TrackA, Ans::TrackB, Ans::Silent, Ans::Other] {
        for lat in ctx.tier.pick(vec![0i64, 300, 2900], vec![0, 1, 300, 999, 2900]) {
            halpha.push(Step { ans, phc_readable: true, gap_ms: 1000, latency_ms: lat, phc_read_errno: 0, wall_step_ms: 0 });
        }
    }
    halpha.push(Step { ans: Ans::TrackA, phc_readable: false, gap_ms: 1000, latency_ms: 300, phc_read_errno: 0, wall_step_ms: 0 });
    halpha.push(Step { ans: Ans::Silent, phc_readable: true, gap_ms: 6000, latency_ms: 2900, phc_read_errno: 0, wall_step_ms: 0 });
    let hseqs = sequences(&halpha, hist_depth);
    let hbase = ctx.scratch();
    let hparts = par::map(2 * halpha.len(), |i| {
        let (phc_cfg, first) = (i % 2 == 1, i / 2);
        let dir = hbase.join(format!("c12h-{i}"));
        let _ = std::fs::create_dir_all(&dir);
        let mut sink = Sink::new();
        let (mut n, mut reports) = (0u64, 0u64);
        for seq in hseqs.iter().filter(|q| q[0] == halpha[first]) {
            n += 1;
            let doc = |k: usize| json!({"check": "C12", "side": "daemon", "phase": "histories", "phc_configured": phc_cfg, "failing_step": k,
                "steps": seq.iter().map(|s| json!({"answer": format!("{:?}", s.ans), "phc_file_readable": s.phc_readable, "gap_ms": s.gap_ms, "reply_latency_ms": s.latency_ms})).collect::<Vec<_>>()});
            let r12 = poller_run(seq, phc_cfg, &dir, false);
            check_nothing_held("C12", &mut sink, doc(0));
            match r12 {
                Ok(res) => {
                    // poll k starts at m0 + sum(gaps up to k) + sum(latencies before k)
                    let mut start = 5000 * S;
                    for (k, (msgs, _)) in res.iter().enumerate() {
                        start += seq[k].gap_ms as i128 * 1_000_000;
                        for m in msgs {
                            if let Message::ClockErrorBoundData((_, _, as_of)) = m {
                                reports += 1;
                                let a = ts_ns(as_of.tv_sec, as_of.tv_nsec);
                                if a != start {
                                    sink.add("C12:history:as-of-not-the-reading-before-the-request".into(), format!("poll {k} of the lifetime {:?}: the report carries as-of {a} ns, but the monotonic clock read {start} ns when that poll began and {} ns when the reply arrived: the as-of is not the reading taken before the request was issued", seq.iter().map(|s| format!("{:?}+{}ms", s.ans, s.latency_ms)).collect::<Vec<_>>(), start + seq[k].latency_ms as i128 * 1_000_000), doc(k));
                                }
                            }
                        }
                        start += seq[k].latency_ms as i128 * 1_000_000;
                    }
                }
                Err(e) => sink.add("C12:history:panic".into(), format!("the polling loop panicked: {e}"), doc(0)),
            }
        }
        (n, reports, sink)
    });
    let (mut hist_n, mut hist_reports) = (0u64, 0u64);
    for (hn, hr, hs) in hparts {
        hist_n += hn;
        hist_reports += hr;
        sink.merge(hs);
    }
    n += hist_n;
    let e2e = c12_end_to_end(ctx, &mut sink);
    let coverage = cov(vec![
        ("end_to_end_through_the_release_binary", e2e),
        ("daemon_side_histories", json!({"lifetimes": hist_n, "reports_checked": hist_reports, "polls_per_lifetime": hist_depth, "alphabet": halpha.len(), "rule": "every sequence of that many polls over (chronyd answers with the PHC's / another reference id, is silent, answers something else) x (reply latency) + (PHC error bound unreadable) + (silence after a 6 s gap), with and without PHC configuration, each as ONE invocation of the real polling loop; oracle: as-of of every report = the monotonic reading at the start of its own poll"})),
        ("evaluations", json!(n)),
        ("distinct_nontrivial", json!(n)),
        ("rule", json!("cross product of (virtual time advance per clock read) x (reply latency) x (chronyd answers / silent) x (PHC not configured / configured and the reference / configured and not the reference / the reference with its error bound unreadable) on the daemon side and (advance per read) x (record age) x (API route) on the client side; every read of every clock is logged by the interposed clock_gettime; all cases distinct")),
        ("samples", json!(samples)),
        ("transient_clock_failures", json!({"cases": n_fault, "rule": "daemon side, for advance 0 / 1 ms per read and latency 0 / 10 ms, answering and silent chronyd: each clock read of the poll in turn fails once (EINVAL)", "report_sent": fault_outcomes[0], "nothing_sent": fault_outcomes[1], "poller_thread_died": fault_outcomes[2]})),
        ("advance_per_read_ns", json!(deltas)),
        ("reply_latency_ns", json!(lats.iter().map(|l| l.to_string()).collect::<Vec<_>>())),
        ("violation_counts_by_class", json!(sink.counts)),
        ("exhaustive", json!(true)),
    ]);
    finish(ctx, Outcome { level: "exploration", coverage, assumptions: vec!["a scheduling delay between two steps is modelled as virtual time advancing at each clock read and during the request".into()], violations: sink.kept })
}

pub fn run(ctx: &Ctx) -> i32 {
    crate::common::report::quiet_panics();
    pipeline::install();
    if let Err(e) = pipeline::wire_self_test() {
        machinery_failure(&e);
    }
    if let Some(p) = &ctx.replay {
        return replay(ctx, p);
    }
    match ctx.prop.as_str() {
        "C08" => run_c08(ctx),
        "C09" => run_c09(ctx),
        "C10" => run_c10(ctx),
        "C12" => run_c12(ctx),
        "C13" => run_c13(ctx),
        _ => machinery_failure("histmc: unknown property"),
    }
}

fn replay(ctx: &Ctx, path: &std::path::Path) -> i32 {
    let doc: Value = serde_json::from_str(&std::fs::read_to_string(path).expect("replay file")).expect("json");
    let c = &doc["case"];
    match c["check"].as_str().unwrap_or("") {
        "C08" | "C09" if !c["steps"].is_array() => {
            let key = if c["check"] == "C08" { "outcomes" } else { "outcomes_since_start" };
            if let Some(a) = c[key].as_array() {
                let seq: Vec<Out> = a.iter().map(|s| Out::from_short(s.as_str().unwrap())).collect();
                let drift = c["drift_ppb"].as_u64().unwrap_or(1000) as u32;
                let phc = c["phc_error_bound_ns"].as_i64().unwrap_or(0);
                let m0 = c["uptime_at_start_s"].as_i64().unwrap_or(5000);
                let a = publish_seq(&seq, drift, phc, m0);
                let b = publish_seq(&seq, drift, phc, m0);
                println!("outcomes {:?}", seq_name(&seq));
                match &a {
                    Ok(recs) => {
                        for (i, r) in recs.iter().enumerate() {
                            println!("publication {i} after {}: {}", seq[i].name(), r.json());
                        }
                    }
                    Err(e) => println!("panic: {e}"),
                }
                if a != b {
                    println!("NON-DETERMINISTIC replay");
                    return 2;
                }
            } else {
                println!("client-phase case: {}", c);
                let r = Rec::from_json(&c["published"]);
                let p = ctx.scratch().join("replay");
                let mut w = ShmWriter::new(&p).expect("writer");
                w.write(&r.to_ceb());
                println!("client status at uptime {} s: {:?}", c["uptime_s"], client_status(&p, None, c["uptime_s"].as_i64().unwrap() as i128 * S).map(status_name));
            }
            0
        }
        "C10" if c["reference_time_age_ns"].is_string() => {
            let leap = c["leap_status"].as_u64().unwrap_or(0) as u16;
            let iv = c["update_interval_s"].as_f64().unwrap_or(1.0);
            let age: i128 = c["reference_time_age_ns"].as_str().unwrap().parse().unwrap_or(0);
            let aux = c["unrelated_report_fields_variant"].as_u64().unwrap_or(0) as u8;
            let prefix = match c["status_before"].as_str().unwrap_or("") {
                "Unknown" => Out::U,
                "FreeRunning" => Out::X,
                _ => Out::S1,
            };
            let as_of = libc::timespec { tv_sec: 5000, tv_nsec: 1 };
            let now: i128 = c["wall_clock_ns"].as_str().and_then(|x| x.parse().ok()).unwrap_or(R0);
            let ib = encode_float(iv);
            let mut runs = vec![];
            for _ in 0..2 {
                pipeline::set_aux_variant(aux);
                let t = TrackSpec { ref_id: c["reference_id"].as_u64().unwrap_or(0) as u32, leap, ref_time_ns: now - age, offset_bits: encode_float(0.001), delay_bits: encode_float(0.01), disp_bits: encode_float(0.01), interval_bits: ib };
                let msgs = vec![Out::S1.message(now, 0, as_of), prefix.message(now, 0, as_of), Message::ClockErrorBoundData((tracking_of(&t), 0, as_of))];
                vclock::arm(VClock { real_ns: now, mono_ns: 5001 * S, auto_advance_ns: 0, fail_errno: 0, fail_clock: -1 });
                let r = std::panic::catch_unwind(|| pipeline::published_for(msgs, 1000));
                vclock::disarm();
                pipeline::set_aux_variant(0);
                runs.push(r.map(|v| v.iter().map(|x| status_name(x.status).to_string()).collect::<Vec<_>>()).map_err(panic_text));
            }
            println!("report: leap status {leap}, update interval {iv} s, reference time {age} ns old, unrelated fields variant {aux}, after a synchronised report and a {} one", c["status_before"]);
            println!("published statuses: {:?}; the report classifies as {:?}; recorded: {}", runs[0], ref_classify(leap, ib, age).map(status_name), c["published_status"]);
            if runs[0] != runs[1] {
                println!("NON-DETERMINISTIC replay");
                return 2;
            }
            0
        }
        "C08" | "C09" | "C12" | "C13" if c["steps"].is_array() => {
            // a lifetime of the real polling loop, run twice
            let steps: Vec<Step> = c["steps"].as_array().unwrap().iter().map(|s| Step {
                ans: match s["answer"].as_str().unwrap_or("") { "TrackA" => Ans::TrackA, "TrackB" => Ans::TrackB, "Silent" => Ans::Silent, "Unsync" => Ans::Unsync, "Stale" => Ans::Stale, _ => Ans::Other },
                phc_readable: s["phc_file_readable"].as_bool().unwrap_or(true), gap_ms: s["gap_ms"].as_i64().unwrap_or(1000), latency_ms: s["reply_latency_ms"].as_i64().unwrap_or(0),
                phc_read_errno: s["phc_read_errno"].as_i64().unwrap_or(0) as i32, wall_step_ms: s["realtime_clock_stepped_by_ms"].as_i64().unwrap_or(0) }).collect();
            let phc_cfg = c["phc_configured"].as_bool().unwrap_or(false);
            pipeline::set_aux_variant(c["report_field_variant"].as_u64().unwrap_or(0) as u8);
            let dir = ctx.scratch().join("replay");
            let _ = std::fs::create_dir_all(&dir);
            let vary = c["check"] == "C13";
            let run = || poller_run(&steps, phc_cfg, &dir, vary).map(|v| v.into_iter().map(|(m, e)| (m.iter().map(msg_class).collect::<Vec<_>>(), e)).collect::<Vec<_>>());
            let (a, b) = (run(), run());
            match &a {
                Ok(res) => {
                    for (k, (got, exp)) in res.iter().enumerate() {
                        println!("poll {k} ({:?}, reply after {} ms): sent to the writer thread {:?}; the reference poller sends {exp}", steps[k].ans, steps[k].latency_ms, got);
                    }
                }
                Err(e) => println!("the polling loop panicked: {e}"),
            }
            if a != b {
                println!("NON-DETERMINISTIC replay");
                return 2;
            }
            0
        }
        other => {
            println!("replay of a {other} case: re-run the check with the parameters recorded in the file:\n{}", serde_json::to_string_pretty(c).unwrap());
            0
        }
    }
}
