//! Drivers for the real daemon pipeline under virtual time (DESIGN.md section 4.1):
//! wire-level chrony replies -> real poller loop -> messages -> real process_messages / ShmUpdater /
//! FSM -> a sink (recording, or the real ShmWriter on a tmpfs file).

use crate::common::rec::Rec;
use crate::common::vclock;
use chrony_candm::reply::Reply;
use chrony_candm::request::RequestBody;
use chrony_candm::ClientOptions;
use clock_bound_d::channels::new_channel_web;
use clock_bound_d::thread_manager::Context;
use clock_bound_d::verif::{self, Hooks};
use clock_bound_d::{verif_poller, verif_writer, ChannelId, Message, PhcInfo};
use clock_bound_shm::{ClockErrorBound, ShmWrite};
use std::cell::RefCell;
use std::collections::VecDeque;
use std::rc::Rc;

// ---------------------------------------------------------------------------------------------
// chrony wire format

/// Exact value of a chrony 32-bit float: coef * 2^exp2 (coef signed 25 bits, exponent signed 7 bits).
#[derive(Clone, Copy, Debug, PartialEq, Eq)]
pub struct Dyadic {
    pub coef: i64,
    pub exp2: i32,
}

pub fn decode_float(bits: u32) -> Dyadic {
    let mut exp = (bits >> 25) as i32;
    if exp >= 64 {
        exp -= 128;
    }
    exp -= 25;
    let mut coef = (bits & 0x01ff_ffff) as i64;
    if coef >= 1 << 24 {
        coef -= 1 << 25;
    }
    Dyadic { coef, exp2: exp }
}

pub fn dyadic_f64(d: Dyadic) -> f64 {
    (d.coef as f64) * 2.0f64.powi(d.exp2)
}

/// Encode the float closest to (but not above, for positive values) v; chrony's own algorithm.
pub fn encode_float(v: f64) -> u32 {
    if v == 0.0 {
        return 0;
    }
    let neg = v < 0.0;
    let x = v.abs();
    let mut exp = x.log2().floor() as i32 + 1;
    let mut coef = (x * 2.0f64.powi(25 - exp) + 0.5) as i64;
    let max = (1i64 << 24) - 1 + if neg { 1 } else { 0 };
    while coef > max {
        coef >>= 1;
        exp += 1;
    }
    exp = exp.clamp(-64, 63);
    let c = if neg { -coef } else { coef };
    (((exp as u32) & 0x7f) << 25) | ((c as u32) & 0x01ff_ffff)
}

#[derive(Clone, Copy, Debug, PartialEq, Eq, Hash, PartialOrd, Ord)]
pub struct TrackSpec {
    pub ref_id: u32,
    pub leap: u16,
    /// reference time as nanoseconds since the epoch (must be >= 0)
    pub ref_time_ns: i128,
    pub offset_bits: u32,
    pub delay_bits: u32,
    pub disp_bits: u32,
    pub interval_bits: u32,
}

thread_local! { static AUX: std::cell::Cell<u8> = const { std::cell::Cell::new(0) }; }

/// Variant of the fields of a tracking report that no property gives a meaning to (stratum, source
/// address, last/RMS offset, frequency, residual frequency, skew). 0 is the plain report; the others
/// exist because "a field that should not matter" is exactly where a dependence can hide.
pub fn set_aux_variant(v: u8) {
    AUX.with(|a| a.set(v));
}
pub const AUX_VARIANTS: [u8; 4] = [0, 1, 2, 3];

pub fn tracking_wire(t: &TrackSpec, sequence: u32) -> Vec<u8> {
    let aux = AUX.with(|a| a.get());
    let (stratum, ip4, misc): (u16, Option<[u8; 4]>, [u32; 5]) = match aux {
        0 => (1, None, [0; 5]),
        1 => (2, Some([169, 254, 169, 123]), [encode_float(-0.0003), encode_float(0.0004), encode_float(-12.5), encode_float(0.01), encode_float(0.05)]),
        2 => (0, None, [encode_float(1.0), encode_float(1.0), encode_float(100.0), encode_float(-1.0), encode_float(1000.0)]),
        _ => (15, Some([10, 0, 0, 1]), [0x7E00_0001, 0x0000_0001, 0, 0, 0]),
    };
    let mut b: Vec<u8> = Vec::with_capacity(104);
    b.extend_from_slice(&[6, 2, 0, 0]);
    b.extend_from_slice(&33u16.to_be_bytes()); // command being replied to (REQ_TRACKING)
    b.extend_from_slice(&5u16.to_be_bytes()); // RPY_TRACKING
    b.extend_from_slice(&0u16.to_be_bytes()); // STT_SUCCESS
    b.extend_from_slice(&[0; 6]);
    b.extend_from_slice(&sequence.to_be_bytes());
    b.extend_from_slice(&[0; 8]);
    debug_assert_eq!(b.len(), 28);
    b.extend_from_slice(&t.ref_id.to_be_bytes());
    match ip4 {
        None => {
            b.extend_from_slice(&[0; 16]);
            b.extend_from_slice(&0u16.to_be_bytes()); // IPADDR_UNSPEC
        }
        Some(a) => {
            b.extend_from_slice(&a);
            b.extend_from_slice(&[0; 12]);
            b.extend_from_slice(&1u16.to_be_bytes()); // IPADDR_INET4
        }
    }
    b.extend_from_slice(&0u16.to_be_bytes());
    b.extend_from_slice(&stratum.to_be_bytes());
    b.extend_from_slice(&t.leap.to_be_bytes());
    let secs = t.ref_time_ns.div_euclid(1_000_000_000) as i64;
    let nsecs = t.ref_time_ns.rem_euclid(1_000_000_000) as u32;
    b.extend_from_slice(&((secs >> 32) as i32).to_be_bytes());
    b.extend_from_slice(&((secs & 0xffff_ffff) as u32).to_be_bytes());
    b.extend_from_slice(&nsecs.to_be_bytes());
    b.extend_from_slice(&t.offset_bits.to_be_bytes()); // current_correction
    b.extend_from_slice(&(if aux == 0 { t.offset_bits } else { misc[0] }).to_be_bytes()); // last_offset
    b.extend_from_slice(&misc[1].to_be_bytes()); // rms_offset
    b.extend_from_slice(&misc[2].to_be_bytes()); // freq_ppm
    b.extend_from_slice(&misc[3].to_be_bytes()); // resid_freq_ppm
    b.extend_from_slice(&misc[4].to_be_bytes()); // skew_ppm
    b.extend_from_slice(&t.delay_bits.to_be_bytes());
    b.extend_from_slice(&t.disp_bits.to_be_bytes());
    b.extend_from_slice(&t.interval_bits.to_be_bytes());
    b
}

pub fn null_reply_wire(sequence: u32) -> Vec<u8> {
    let mut b: Vec<u8> = Vec::with_capacity(28);
    b.extend_from_slice(&[6, 2, 0, 0]);
    b.extend_from_slice(&33u16.to_be_bytes());
    b.extend_from_slice(&1u16.to_be_bytes()); // RPY_NULL
    b.extend_from_slice(&0u16.to_be_bytes());
    b.extend_from_slice(&[0; 6]);
    b.extend_from_slice(&sequence.to_be_bytes());
    b.extend_from_slice(&[0; 8]);
    b
}

pub fn parse_reply(wire: &[u8]) -> Result<Reply, String> {
    let mut s: &[u8] = wire;
    Reply::deserialize(&mut s).map_err(|e| e.to_string())
}

pub fn tracking_of(t: &TrackSpec) -> chrony_candm::reply::Tracking {
    match parse_reply(&tracking_wire(t, 1)).expect("tracking wire").body {
        chrony_candm::reply::ReplyBody::Tracking(tr) => tr,
        _ => unreachable!(),
    }
}

/// The wire builder is itself checked against the crate's decoder (offsets, float decoding).
pub fn wire_self_test() -> Result<(), String> {
    let t = TrackSpec { ref_id: 0x50484330, leap: 2, ref_time_ns: 1_700_000_000_123_456_789, offset_bits: encode_float(-0.007), delay_bits: encode_float(0.1), disp_bits: encode_float(0.02), interval_bits: encode_float(16.3) };
    let tr = tracking_of(&t);
    let chk = |name: &str, got: f64, bits: u32| -> Result<(), String> {
        let want = dyadic_f64(decode_float(bits));
        if got != want {
            return Err(format!("wire self-test: {name} decodes to {got}, reference decoder says {want}"));
        }
        Ok(())
    };
    chk("current_correction", tr.current_correction.into(), t.offset_bits)?;
    chk("root_delay", tr.root_delay.into(), t.delay_bits)?;
    chk("root_dispersion", tr.root_dispersion.into(), t.disp_bits)?;
    chk("last_update_interval", tr.last_update_interval.into(), t.interval_bits)?;
    if tr.ref_id != t.ref_id || tr.leap_status != 2 {
        return Err("wire self-test: ref_id / leap_status misplaced".into());
    }
    let rt = tr.ref_time.duration_since(std::time::UNIX_EPOCH).map_err(|e| e.to_string())?;
    if rt.as_nanos() as i128 != t.ref_time_ns {
        return Err("wire self-test: ref_time misplaced".into());
    }
    if (dyadic_f64(decode_float(t.offset_bits)) + 0.007).abs() > 1e-9 {
        return Err("wire self-test: float encoder is off".into());
    }
    Ok(())
}

// ---------------------------------------------------------------------------------------------
// the chrony-query seam

#[derive(Clone, Debug)]
pub enum Answer {
    /// a reply carrying these wire bytes
    Wire(Vec<u8>),
    /// no reply (socket error / three timeouts)
    Silent,
}

pub struct Query {
    pub answer: Answer,
    /// virtual time consumed by the request (both clocks advance by this much)
    pub latency_ns: i128,
}

thread_local! {
    static SCRIPT: RefCell<VecDeque<Query>> = const { RefCell::new(VecDeque::new()) };
    static QUERIES_SEEN: RefCell<Vec<(i128, i128)>> = const { RefCell::new(Vec::new()) }; // (mono at request, mono at reply)
}

/// Raised when the polling loop asks chronyd again although it was told to stop after one iteration
/// (a poller that ignores the abort message would otherwise spin for ever inside the harness).
pub struct LoopEscape;

fn chrony_hook(_req: RequestBody, _opt: ClientOptions) -> std::io::Result<Reply> {
    let q = SCRIPT.with(|s| s.borrow_mut().pop_front());
    let q = match q {
        Some(q) => q,
        None => std::panic::resume_unwind(Box::new(LoopEscape)),
    };
    let before = vclock::get().mono_ns;
    vclock::log_mark();
    vclock::advance(q.latency_ns);
    QUERIES_SEEN.with(|l| l.borrow_mut().push((before, before + q.latency_ns)));
    match q.answer {
        Answer::Silent => Err(std::io::Error::new(std::io::ErrorKind::TimedOut, "verif: chronyd silent")),
        Answer::Wire(w) => parse_reply(&w).map_err(|e| std::io::Error::new(std::io::ErrorKind::InvalidData, e)),
    }
}

// ---------------------------------------------------------------------------------------------
// Channels and loop points for a single-threaded driver. The daemon's threads talk through the stand-in
// `mpsc`; here everything runs on the calling thread, so a channel is just a counter of queued messages:
// a receive takes a queued message, reports "disconnected" when every sender is gone, lets a timed
// receive time out at once (virtual time is moved by the driver, not by waiting), and refuses to block for
// ever (LoopEscape). The state is per thread: the engines run many drivers in parallel threads.

#[derive(Clone, Copy)]
struct Chan {
    queued: usize,
    senders: usize,
}

/// One daemon lifetime of the polling loop, driven from its loop point (`poller:loop`).
struct Lifetime {
    polls: usize,
    next: usize,
    step: Box<dyn FnMut(usize) -> Query>,
    after: Box<dyn FnMut(usize)>,
}

thread_local! {
    static CHANS: RefCell<Vec<Chan>> = const { RefCell::new(Vec::new()) };
    static LIFETIME: RefCell<Option<Lifetime>> = const { RefCell::new(None) };
}

fn h_chan_new() -> usize {
    CHANS.with(|c| {
        let mut c = c.borrow_mut();
        c.push(Chan { queued: 0, senders: 1 });
        c.len() - 1
    })
}
fn chan<R>(id: usize, f: impl FnOnce(&mut Chan) -> R) -> Option<R> {
    CHANS.try_with(|c| c.try_borrow_mut().ok().and_then(|mut c| c.get_mut(id).map(f))).ok().flatten()
}
fn h_sender_clone(id: usize) {
    chan(id, |c| c.senders += 1);
}
fn h_sender_drop(id: usize) {
    chan(id, |c| c.senders = c.senders.saturating_sub(1));
}
fn h_receiver_drop(_id: usize) {}
fn h_send(_id: usize) -> verif::Ctl {
    verif::Ctl::Proceed
}
fn h_sent(id: usize, ok: bool) {
    if ok {
        chan(id, |c| c.queued += 1);
    }
}
fn h_recv(id: usize, timeout: Option<std::time::Duration>) -> verif::RecvCtl {
    match chan(id, |c| {
        if c.queued > 0 {
            c.queued -= 1;
            Some(verif::RecvCtl::Take)
        } else if c.senders == 0 {
            Some(verif::RecvCtl::Disconnected)
        } else {
            None
        }
    }) {
        Some(Some(r)) => r,
        Some(None) => match timeout {
            Some(_) => verif::RecvCtl::Timeout,
            // nothing queued, senders alive, no timeout: on a single thread this would wait for ever
            None => std::panic::resume_unwind(Box::new(LoopEscape)),
        },
        None => verif::RecvCtl::Disconnected,
    }
}
fn h_spawn() -> usize {
    usize::MAX
}
fn h_thread_begin(_id: usize) {}
fn h_thread_end(_id: usize, _panicked: bool) {}
fn h_join(_id: usize) -> verif::Ctl {
    verif::Ctl::Proceed
}
fn h_reverse_keys() -> bool {
    false
}
fn h_fault_point(name: &'static str) -> verif::FaultAction {
    if name != "poller:loop" {
        return verif::FaultAction::None;
    }
    // take the lifetime out while its callbacks run (they use the channels and the clock)
    let lt = LIFETIME.with(|l| l.borrow_mut().take());
    let mut lt = match lt {
        Some(lt) => lt,
        None => return verif::FaultAction::None,
    };
    if lt.next > 0 {
        (lt.after)(lt.next - 1);
    }
    let action = if lt.next >= lt.polls {
        verif::FaultAction::Return
    } else {
        let q = (lt.step)(lt.next);
        script(vec![q]);
        lt.next += 1;
        verif::FaultAction::None
    };
    LIFETIME.with(|l| *l.borrow_mut() = Some(lt));
    action
}

static HOOKS: Hooks = Hooks {
    sched: Some(verif::SchedHooks {
        chan_new: h_chan_new,
        sender_clone: h_sender_clone,
        sender_drop: h_sender_drop,
        receiver_drop: h_receiver_drop,
        send: h_send,
        sent: h_sent,
        recv: h_recv,
        spawn: h_spawn,
        thread_begin: h_thread_begin,
        thread_end: h_thread_end,
        join: h_join,
        fault_point: h_fault_point,
        reverse_keys: h_reverse_keys,
    }),
    chrony_query: Some(chrony_hook),
};

pub fn install() {
    verif::install(&HOOKS);
}

/// Write `value` to a stand-in for a sysfs attribute: what such a file does NOT do is tell a change of its
/// content through its metadata (the inode's mtime is fixed when it is created and the size is always one
/// page) - so the content is padded to a fixed width and the time stamps are pinned.
pub fn write_sysfs_like(path: &std::path::Path, value: i64) {
    let _ = std::fs::write(path, format!("{value:019}\n"));
    if let Ok(c) = std::ffi::CString::new(path.to_str().unwrap_or("")) {
        let t = libc::timespec { tv_sec: 1_000_000_000, tv_nsec: 0 };
        let times = [t, t];
        // SAFETY: valid path and array of two timespecs
        unsafe { libc::utimensat(libc::AT_FDCWD, c.as_ptr(), times.as_ptr(), 0) };
    }
}

pub fn script(q: Vec<Query>) {
    SCRIPT.with(|s| *s.borrow_mut() = q.into());
}
pub fn script_left() -> usize {
    SCRIPT.with(|s| s.borrow().len())
}
pub fn take_queries_seen() -> Vec<(i128, i128)> {
    QUERIES_SEEN.with(|l| std::mem::take(&mut *l.borrow_mut()))
}

// ---------------------------------------------------------------------------------------------
// poller

/// The real `ClockErrorBoundPoller` of one daemon lifetime. Must be created with the virtual clock armed.
pub struct PollerLife {
    pub poller: verif_poller::Poller,
}

impl PollerLife {
    pub fn new() -> PollerLife {
        PollerLife { poller: verif_poller::Poller::default() }
    }

    /// One iteration of the real polling loop. The virtual clock must be set to the poll instant;
    /// the scripted query consumes its latency. Returns the messages sent to the writer thread.
    pub fn poll_once(&mut self, phc: Option<PhcInfo>, q: Query) -> Vec<Message> {
        let (mut mbox, dbox) = new_channel_web(vec![ChannelId::ClockErrorBoundPoller, ChannelId::ShmWriter]);
        let shm_mbox = mbox.get_mailbox(&ChannelId::ShmWriter).unwrap();
        let my_mbox = mbox.get_mailbox(&ChannelId::ClockErrorBoundPoller).unwrap();
        // the loop body runs once and leaves at its recv_timeout
        let _ = dbox.send(&ChannelId::ClockErrorBoundPoller, Message::ThreadAbort);
        let ctx = Context { mbox: my_mbox, dbox, channel_id: ChannelId::ClockErrorBoundPoller };
        script(vec![q]);
        let poller = &mut self.poller;
        let r = std::panic::catch_unwind(std::panic::AssertUnwindSafe(|| verif_poller::run_poller(ctx, poller, phc, std::time::Duration::from_millis(1000))));
        if let Err(p) = r {
            if p.downcast_ref::<LoopEscape>().is_none() {
                std::panic::resume_unwind(p);
            }
            // the loop did not stop on the abort message (not this harness's subject: C15's); the messages
            // of the one iteration that was scripted have been sent
        }
        let mut out = vec![];
        while let Ok(m) = shm_mbox.try_recv() {
            out.push(m);
        }
        out
    }

    /// A whole lifetime of the real polling loop in ONE invocation (so that whatever the loop keeps in its
    /// own variables from one poll to the next is kept): `polls` iterations. Before iteration k the loop point
    /// calls `step(k)`, which sets the virtual clock and the environment of that poll and returns the scripted
    /// chronyd answer; `after(k)` runs once iteration k is complete (its messages are then in the result).
    /// Returns the messages sent to the writer thread, per iteration.
    pub fn run_lifetime(&mut self, phc: Option<PhcInfo>, polls: usize, step: impl FnMut(usize) -> Query + 'static, mut after: impl FnMut(usize) + 'static) -> Vec<Vec<Message>> {
        let (mut mbox, dbox) = new_channel_web(vec![ChannelId::ClockErrorBoundPoller, ChannelId::ShmWriter]);
        let shm_mbox = Rc::new(mbox.get_mailbox(&ChannelId::ShmWriter).unwrap());
        let my_mbox = mbox.get_mailbox(&ChannelId::ClockErrorBoundPoller).unwrap();
        let ctx = Context { mbox: my_mbox, dbox, channel_id: ChannelId::ClockErrorBoundPoller };
        let out: Rc<RefCell<Vec<Vec<Message>>>> = Rc::new(RefCell::new(vec![]));
        let (o2, m2) = (out.clone(), shm_mbox.clone());
        let after_all = move |k: usize| {
            let mut v = vec![];
            while let Ok(m) = m2.try_recv() {
                v.push(m);
            }
            o2.borrow_mut().push(v);
            after(k);
        };
        LIFETIME.with(|l| *l.borrow_mut() = Some(Lifetime { polls, next: 0, step: Box::new(step), after: Box::new(after_all) }));
        script(vec![]);
        let poller = &mut self.poller;
        let r = std::panic::catch_unwind(std::panic::AssertUnwindSafe(|| verif_poller::run_poller(ctx, poller, phc, std::time::Duration::from_millis(1000))));
        LIFETIME.with(|l| *l.borrow_mut() = None);
        if let Err(p) = r {
            std::panic::resume_unwind(p);
        }
        let v = out.borrow().clone();
        v
    }
}

// ---------------------------------------------------------------------------------------------
// writer thread message loop

/// A sink that records every record the updater publishes and calls back after each one.
pub struct RecSink<F: FnMut(usize, &ClockErrorBound)> {
    pub n: usize,
    pub after: F,
}

impl<F: FnMut(usize, &ClockErrorBound)> ShmWrite for RecSink<F> {
    fn write(&mut self, ceb: &ClockErrorBound) {
        let i = self.n;
        self.n += 1;
        (self.after)(i, ceb)
    }
}

/// Feed one daemon lifetime's messages to the real `process_messages` (real ShmUpdater, real FSM).
/// `after(i, record)` is called after message i has been processed and published.
pub fn run_updater(msgs: Vec<Message>, max_drift_ppb: u32, after: impl FnMut(usize, &ClockErrorBound)) {
    let (mut mbox, dbox) = new_channel_web(vec![ChannelId::ShmWriter]);
    let my_mbox = mbox.get_mailbox(&ChannelId::ShmWriter).unwrap();
    for m in msgs {
        let _ = dbox.send(&ChannelId::ShmWriter, m);
    }
    let _ = dbox.send(&ChannelId::ShmWriter, Message::ThreadAbort);
    let ctx = Context { mbox: my_mbox, dbox, channel_id: ChannelId::ShmWriter };
    verif_writer::process_messages_with(ctx, RecSink { n: 0, after }, max_drift_ppb);
}

/// As `run_updater`, with the given sink (e.g. the real `ShmWriter`, as the daemon itself uses).
pub fn run_updater_with<W: ShmWrite>(msgs: Vec<Message>, max_drift_ppb: u32, writer: W) {
    let (mut mbox, dbox) = new_channel_web(vec![ChannelId::ShmWriter]);
    let my_mbox = mbox.get_mailbox(&ChannelId::ShmWriter).unwrap();
    for m in msgs {
        let _ = dbox.send(&ChannelId::ShmWriter, m);
    }
    let _ = dbox.send(&ChannelId::ShmWriter, Message::ThreadAbort);
    let ctx = Context { mbox: my_mbox, dbox, channel_id: ChannelId::ShmWriter };
    verif_writer::process_messages_with(ctx, writer, max_drift_ppb);
}

/// Convenience: the records published for a list of messages, all processed at the current virtual time.
pub fn published_for(msgs: Vec<Message>, max_drift_ppb: u32) -> Vec<Rec> {
    let out = Rc::new(RefCell::new(vec![]));
    let o2 = out.clone();
    run_updater(msgs, max_drift_ppb, move |_, c| o2.borrow_mut().push(Rec::from_ceb(c)));
    let v = out.borrow().clone();
    v
}
