pub mod pipeline;
