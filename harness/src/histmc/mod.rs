pub mod pipeline;
pub mod props;
