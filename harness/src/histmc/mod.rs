pub mod pipeline;
pub mod props;
pub mod world;
