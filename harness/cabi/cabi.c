/* C17: a C program compiled against clock-bound-ffi/include/clockbound.h and linked with the freshly
 * built libclockbound. It defines clock_gettime itself (virtual clock), so that the library's own
 * clock reads are the scripted ones, and executes commands read from stdin:
 *   A                                     print ABI facts of the header as this compiler sees them
 *   O <path>                              clockbound_open, print the outcome, close
 *   N <path> <rs> <rns> <ms> <mns> <errno> <failclk>   open, now() under the virtual clock, print, close
 *   P <slot> <path>                       clockbound_open into a slot that stays open
 *   Q <slot> <rs> <rns> <ms> <mns>        clockbound_now on an open slot
 *   L <slot> <n> <rs> <rns> <ms> <mns>    clockbound_now n times on an open slot, print the last outcome
 *   X <slotA> <slotB> <rs> <rns> <ms> <mns>   clockbound_now on A, then on B, and only then look at what A returned
 *   W <slot> <path> <ms> <rs> <rns> <ms> <mns>  a thread of this program plays a daemon that never pauses (it bumps the
 *                                         generation of <path> as fast as it can) while clockbound_now is called on the
 *                                         slot until a call gives up (retry budget) or <ms> have passed; then the thread stops
 *   K <slot> <path> <k> <rs> <rns> <ms> <mns> <112 hex digits>   clockbound_now on an open slot; while the call's k-th read
 *                                         of a clock (0-based, any clock) is in progress a complete publication of the given
 *                                         56-byte record lands in <path> (generation made odd, record stored, generation + 2)
 *   E <errno>                             from now on errno holds this value when clockbound_open is entered by an O command
 *                                         (what an earlier, unrelated call of the thread left there)
 *   R <slot>                              clockbound_close the slot
 *   M                                     print the number of open file descriptors and of memory mappings
 *   F <call> <nth> <errno>                the nth (0-based) open (0) / read (1) / mmap (2) made from now on fails once
 * open, read and mmap are defined here as well (pass-through system calls), so that a transient failure of
 * one of them inside the library can be scripted.
 */
#define _GNU_SOURCE
#include <dirent.h>
#include <pthread.h>
#include <stdint.h>
#include <errno.h>
#include <fcntl.h>
#include <stdarg.h>
#include <stddef.h>
#include <sys/mman.h>
#include <stdio.h>
#include <stdlib.h>
#include <string.h>
#include <sys/syscall.h>
#include <time.h>
#include <unistd.h>

#include "clockbound.h"

static struct timespec v_real, v_mono;
static int v_on = 0, v_fail_errno = 0, v_fail_clk = -1;
static int reads_real = 0, reads_mono = 0, first_read = -1;

static int pre_errno = 0;
static int k_at = -1;
static char k_path[4096];
static unsigned char k_rec[56];
static void k_publish(void) {
        int fd = (int)syscall(SYS_openat, AT_FDCWD, k_path, O_RDWR, 0);
        if (fd < 0) return;
        uint16_t g = 0;
        if (pread(fd, &g, 2, 14) == 2) {
                uint16_t odd = (uint16_t)(g + 1);
                if (pwrite(fd, &odd, 2, 14) == 2 && pwrite(fd, k_rec, 56, 16) == 56) {
                        uint16_t even = (uint16_t)(g + 2);
                        if (even == 0) even = 2;
                        if (pwrite(fd, &even, 2, 14) != 2) { /* nothing to do about it */ }
                }
        }
        syscall(SYS_close, fd);
}

int clock_gettime(clockid_t clk, struct timespec *ts) {
        if (!v_on)
                return (int)syscall(SYS_clock_gettime, clk, ts);
        if (k_at >= 0 && reads_real + reads_mono == k_at) {
                k_at = -1;
                k_publish();
        }
        int is_real = (clk == CLOCK_REALTIME || clk == CLOCK_REALTIME_COARSE || clk == CLOCK_TAI);
        if (first_read < 0)
                first_read = is_real ? 0 : 1;
        if (is_real) reads_real++; else reads_mono++;
        if (v_fail_errno && (v_fail_clk < 0 || v_fail_clk == (int)clk)) {
                errno = v_fail_errno;
                return -1;
        }
        *ts = is_real ? v_real : v_mono;
        /* as in the harness's own virtual clock: TAI = realtime + 37 s, boot time = monotonic + 1 h of suspension */
        if (clk == CLOCK_TAI) ts->tv_sec += 37;
        if (clk == CLOCK_REALTIME_COARSE) { ts->tv_nsec -= 3000000; if (ts->tv_nsec < 0) { ts->tv_nsec += 1000000000; ts->tv_sec -= 1; } }
        if (clk == CLOCK_BOOTTIME || clk == CLOCK_BOOTTIME_ALARM) ts->tv_sec += 3600;
        return 0;
}

static int f_call = -1, f_nth = 0, f_errno = 0, f_seen = 0;
static int f_hit(int call) {
        if (f_call != call) return 0;
        if (f_seen++ == f_nth) { errno = f_errno; return 1; }
        return 0;
}
int open(const char *path, int flags, ...) {
        mode_t mode = 0;
        if (flags & (O_CREAT | O_TMPFILE)) { va_list ap; va_start(ap, flags); mode = va_arg(ap, mode_t); va_end(ap); }
        if (f_hit(0)) return -1;
        return (int)syscall(SYS_openat, AT_FDCWD, path, flags, mode);
}
int open64(const char *path, int flags, ...) {
        mode_t mode = 0;
        if (flags & (O_CREAT | O_TMPFILE)) { va_list ap; va_start(ap, flags); mode = va_arg(ap, mode_t); va_end(ap); }
        if (f_hit(0)) return -1;
        return (int)syscall(SYS_openat, AT_FDCWD, path, flags, mode);
}
ssize_t read(int fd, void *buf, size_t n) {
        if (f_hit(1)) return -1;
        return (ssize_t)syscall(SYS_read, fd, buf, n);
}
void *mmap(void *addr, size_t len, int prot, int flags, int fd, off_t off) {
        if (f_hit(2)) return MAP_FAILED;
        return (void *)syscall(SYS_mmap, addr, len, prot, flags, fd, off);
}

static volatile int w_stop, w_call_done;
static uint16_t *w_gen;
/* A daemon that dies in the middle of an update, over and over: publish (even generation), begin the next update
 * (odd generation) a moment later, and stay there until the client's current call has returned. A call whose first
 * look fell into the even moment then faces an update that never ends. */
static void *w_thread(void *arg) {
        (void)arg;
        uint16_t g = __atomic_load_n(w_gen, __ATOMIC_RELAXED);
        unsigned spin = 1;
        while (!w_stop) {
                g = (uint16_t)((g | 1) + 1);
                if (g == 0) g = 2;
                __atomic_store_n(w_gen, g, __ATOMIC_RELEASE);
                for (volatile unsigned i = 0; i < spin; i++) { }
                spin = spin % 64 + 1;
                __atomic_store_n(w_gen, (uint16_t)(g | 1), __ATOMIC_RELEASE);
                while (!w_call_done && !w_stop) { }
                w_call_done = 0;
        }
        g = (uint16_t)((g | 1) + 1);
        if (g == 0) g = 2;
        __atomic_store_n(w_gen, g, __ATOMIC_RELEASE);
        return NULL;
}
static double real_s(void) {
        struct timespec ts;
        syscall(SYS_clock_gettime, CLOCK_MONOTONIC, &ts);
        return ts.tv_sec + ts.tv_nsec / 1e9;
}

static void print_err(const char *what, const clockbound_err *e) {
        printf("%s err %d %d %s\n", what, (int)e->kind, e->sys_errno, e->detail ? e->detail : "-");
}

static clockbound_ctx *slots[16];

int main(void) {
        char line[8192];
        while (fgets(line, sizeof line, stdin)) {
                if (line[0] == 'P') {
                        int slot; char path[4096];
                        if (sscanf(line + 2, "%d %4095s", &slot, path) != 2 || slot < 0 || slot >= 16) { printf("bad\n"); fflush(stdout); continue; }
                        clockbound_err err;
                        memset(&err, 0x5a, sizeof err);
                        v_on = 0;
                        slots[slot] = clockbound_open(path, &err);
                        if (!slots[slot]) print_err("open", &err); else printf("open ok\n");
                        fflush(stdout);
                        continue;
                }
                if (line[0] == 'Q') {
                        int slot; long long rs, rns, ms, mns;
                        if (sscanf(line + 2, "%d %lld %lld %lld %lld", &slot, &rs, &rns, &ms, &mns) != 5 || slot < 0 || slot >= 16 || !slots[slot]) { printf("bad\n"); fflush(stdout); continue; }
                        clockbound_now_result res;
                        memset(&res, 0x5a, sizeof res);
                        v_real.tv_sec = rs; v_real.tv_nsec = rns; v_mono.tv_sec = ms; v_mono.tv_nsec = mns;
                        v_fail_errno = 0; v_fail_clk = -1; reads_real = reads_mono = 0; first_read = -1;
                        v_on = 1;
                        const clockbound_err *e = clockbound_now(slots[slot], &res);
                        v_on = 0;
                        if (e) print_err("now", e);
                        else printf("now ok %lld %lld %lld %lld %d\n", (long long)res.earliest.tv_sec, (long long)res.earliest.tv_nsec, (long long)res.latest.tv_sec, (long long)res.latest.tv_nsec, (int)res.clock_status);
                        fflush(stdout);
                        continue;
                }
                if (line[0] == 'K') {
                        int slot, k, off = 0; long long rs, rns, ms, mns; char hex[128];
                        if (sscanf(line + 2, "%d %4095s %d %lld %lld %lld %lld %112s%n", &slot, k_path, &k, &rs, &rns, &ms, &mns, hex, &off) != 8 || slot < 0 || slot >= 16 || !slots[slot] || strlen(hex) != 112) { printf("bad\n"); fflush(stdout); continue; }
                        for (int i = 0; i < 56; i++) { unsigned v; sscanf(hex + 2 * i, "%2x", &v); k_rec[i] = (unsigned char)v; }
                        clockbound_now_result res;
                        memset(&res, 0x5a, sizeof res);
                        v_real.tv_sec = rs; v_real.tv_nsec = rns; v_mono.tv_sec = ms; v_mono.tv_nsec = mns;
                        v_fail_errno = 0; v_fail_clk = -1; reads_real = reads_mono = 0; first_read = -1;
                        k_at = k;
                        v_on = 1;
                        const clockbound_err *e = clockbound_now(slots[slot], &res);
                        v_on = 0;
                        k_at = -1;
                        if (e) print_err("now", e);
                        else printf("now ok %lld %lld %lld %lld %d\n", (long long)res.earliest.tv_sec, (long long)res.earliest.tv_nsec, (long long)res.latest.tv_sec, (long long)res.latest.tv_nsec, (int)res.clock_status);
                        fflush(stdout);
                        continue;
                }
                if (line[0] == 'E') {
                        pre_errno = atoi(line + 2);
                        printf("errno set\n");
                        fflush(stdout);
                        continue;
                }
                if (line[0] == 'M') {
                        int fds = 0, maps = 0, ch;
                        DIR *d = opendir("/proc/self/fd");
                        if (d) { struct dirent *e; while ((e = readdir(d))) if (e->d_name[0] != '.') fds++; closedir(d); fds--; }
                        FILE *f = fopen("/proc/self/maps", "r");
                        if (f) { while ((ch = fgetc(f)) != EOF) if (ch == '\n') maps++; fclose(f); }
                        printf("res %d %d\n", fds, maps);
                        fflush(stdout);
                        continue;
                }
                if (line[0] == 'F') {
                        int call, nth, e;
                        if (sscanf(line + 2, "%d %d %d", &call, &nth, &e) != 3) { printf("bad\n"); fflush(stdout); continue; }
                        f_call = call; f_nth = nth; f_errno = e; f_seen = 0;
                        printf("armed\n");
                        fflush(stdout);
                        continue;
                }
                if (line[0] == 'L') {
                        int slot; long long cnt, rs, rns, ms, mns;
                        if (sscanf(line + 2, "%d %lld %lld %lld %lld %lld", &slot, &cnt, &rs, &rns, &ms, &mns) != 6 || slot < 0 || slot >= 16 || !slots[slot]) { printf("bad\n"); fflush(stdout); continue; }
                        clockbound_now_result res;
                        memset(&res, 0x5a, sizeof res);
                        v_real.tv_sec = rs; v_real.tv_nsec = rns; v_mono.tv_sec = ms; v_mono.tv_nsec = mns;
                        v_fail_errno = 0; v_fail_clk = -1;
                        v_on = 1;
                        const clockbound_err *e = NULL;
                        for (long long i = 0; i < cnt; i++) e = clockbound_now(slots[slot], &res);
                        v_on = 0;
                        if (e) print_err("now", e);
                        else printf("now ok %lld %lld %lld %lld %d\n", (long long)res.earliest.tv_sec, (long long)res.earliest.tv_nsec, (long long)res.latest.tv_sec, (long long)res.latest.tv_nsec, (int)res.clock_status);
                        fflush(stdout);
                        continue;
                }
                if (line[0] == 'X') {
                        int a, b; long long rs, rns, ms, mns;
                        if (sscanf(line + 2, "%d %d %lld %lld %lld %lld", &a, &b, &rs, &rns, &ms, &mns) != 6 || a < 0 || a >= 16 || b < 0 || b >= 16 || !slots[a] || !slots[b]) { printf("bad\n"); fflush(stdout); continue; }
                        clockbound_now_result ra, rb;
                        v_real.tv_sec = rs; v_real.tv_nsec = rns; v_mono.tv_sec = ms; v_mono.tv_nsec = mns;
                        v_fail_errno = 0; v_fail_clk = -1;
                        v_on = 1;
                        const clockbound_err *ea = clockbound_now(slots[a], &ra);
                        const clockbound_err *eb = clockbound_now(slots[b], &rb);
                        v_on = 0;
                        /* each context is its own: what the first call returned is still the first call's */
                        printf("x A:%d/%d B:%d/%d\n", ea ? (int)ea->kind : 0, ea ? ea->sys_errno : 0, eb ? (int)eb->kind : 0, eb ? eb->sys_errno : 0);
                        fflush(stdout);
                        continue;
                }
                if (line[0] == 'W') {
                        int slot, budget_ms; char path[4096]; long long rs, rns, ms, mns;
                        if (sscanf(line + 2, "%d %4095s %d %lld %lld %lld %lld", &slot, path, &budget_ms, &rs, &rns, &ms, &mns) != 7 || slot < 0 || slot >= 16 || !slots[slot]) { printf("bad\n"); fflush(stdout); continue; }
                        int fd = (int)syscall(SYS_openat, AT_FDCWD, path, O_RDWR, 0);
                        void *m = fd >= 0 ? (void *)syscall(SYS_mmap, NULL, 72, PROT_READ | PROT_WRITE, MAP_SHARED, fd, 0) : MAP_FAILED;
                        if (m == MAP_FAILED) { printf("bad map\n"); fflush(stdout); continue; }
                        w_gen = (uint16_t *)((char *)m + 14);
                        w_stop = 0; w_call_done = 0;
                        pthread_t th;
                        pthread_create(&th, NULL, w_thread, NULL);
                        clockbound_now_result res;
                        v_real.tv_sec = rs; v_real.tv_nsec = rns; v_mono.tv_sec = ms; v_mono.tv_nsec = mns;
                        v_fail_errno = 0; v_fail_clk = -1;
                        v_on = 1;
                        double t0 = real_s();
                        long calls = 0; int gave_up = 0;
                        while (real_s() - t0 < budget_ms / 1000.0) {
                                const clockbound_err *e = clockbound_now(slots[slot], &res);
                                w_call_done = 1;
                                calls++;
                                if (e && e->kind == CLOCKBOUND_ERR_SEGMENT_NOT_INITIALIZED) { gave_up = 1; break; }
                        }
                        v_on = 0;
                        w_stop = 1;
                        pthread_join(th, NULL);
                        syscall(SYS_munmap, m, 72);
                        syscall(SYS_close, fd);
                        printf("w gave_up=%d calls=%ld\n", gave_up, calls);
                        fflush(stdout);
                        continue;
                }
                if (line[0] == 'R') {
                        int slot;
                        if (sscanf(line + 2, "%d", &slot) == 1 && slot >= 0 && slot < 16 && slots[slot]) { clockbound_close(slots[slot]); slots[slot] = NULL; }
                        printf("closed\n");
                        fflush(stdout);
                        continue;
                }
                if (line[0] == 'A') {
                        printf("abi err_size=%zu err_kind_off=%zu err_errno_off=%zu err_detail_off=%zu res_size=%zu res_earliest_off=%zu res_latest_off=%zu res_status_off=%zu "
                               "kind_none=%d kind_syscall=%d kind_notinit=%d kind_malformed=%d kind_causality=%d sta_unknown=%d sta_sync=%d sta_free=%d timespec_size=%zu default_path=%s\n",
                               sizeof(clockbound_err), offsetof(clockbound_err, kind), offsetof(clockbound_err, sys_errno), offsetof(clockbound_err, detail),
                               sizeof(clockbound_now_result), offsetof(clockbound_now_result, earliest), offsetof(clockbound_now_result, latest), offsetof(clockbound_now_result, clock_status),
                               CLOCKBOUND_ERR_NONE, CLOCKBOUND_ERR_SYSCALL, CLOCKBOUND_ERR_SEGMENT_NOT_INITIALIZED, CLOCKBOUND_ERR_SEGMENT_MALFORMED, CLOCKBOUND_ERR_CAUSALITY_BREACH,
                               CLOCKBOUND_STA_UNKNOWN, CLOCKBOUND_STA_SYNCHRONIZED, CLOCKBOUND_STA_FREE_RUNNING, sizeof(struct timespec), CLOCKBOUND_SHM_DEFAULT_PATH);
                } else if (line[0] == 'O' || line[0] == 'N') {
                        char path[4096];
                        long long rs = 0, rns = 0, ms = 0, mns = 0;
                        int fe = 0, fc = -1;
                        if (line[0] == 'O') {
                                if (sscanf(line + 2, "%4095s", path) != 1) { printf("bad\n"); continue; }
                        } else {
                                if (sscanf(line + 2, "%4095s %lld %lld %lld %lld %d %d", path, &rs, &rns, &ms, &mns, &fe, &fc) != 7) { printf("bad\n"); continue; }
                        }
                        clockbound_err err;
                        memset(&err, 0x5a, sizeof err);
                        v_on = 0;
                        if (line[0] == 'O') errno = pre_errno;
                        clockbound_ctx *ctx = clockbound_open(path, &err);
                        f_call = -1;
                        if (!ctx) {
                                print_err("open", &err);
                                fflush(stdout);
                                continue;
                        }
                        if (line[0] == 'O') {
                                printf("open ok\n");
                        } else {
                                clockbound_now_result res;
                                memset(&res, 0x5a, sizeof res);
                                v_real.tv_sec = rs; v_real.tv_nsec = rns; v_mono.tv_sec = ms; v_mono.tv_nsec = mns;
                                v_fail_errno = fe; v_fail_clk = fc; reads_real = reads_mono = 0; first_read = -1;
                                v_on = 1;
                                const clockbound_err *e = clockbound_now(ctx, &res);
                                v_on = 0;
                                if (e)
                                        print_err("now", e);
                                else
                                        printf("now ok %lld %lld %lld %lld %d first_read=%s reads=%d/%d\n", (long long)res.earliest.tv_sec, (long long)res.earliest.tv_nsec,
                                               (long long)res.latest.tv_sec, (long long)res.latest.tv_nsec, (int)res.clock_status, first_read == 0 ? "realtime" : "monotonic", reads_real, reads_mono);
                        }
                        const clockbound_err *ce = clockbound_close(ctx);
                        if (ce) print_err("close", ce);
                }
                fflush(stdout);
        }
        return 0;
}
