/* envshim.so - LD_PRELOADed into the release daemon by the end-to-end scenarios (procmc/e2e.rs) to give it
 * environment answers the sandbox itself cannot produce. Every behaviour is off unless its variable is set.
 *
 *   CBV_SHIM_FREQ=<n>      adjtimex / ntp_adjtime / clock_adjtime answer like a synchronised host whose kernel
 *                          frequency correction is <n> (scaled ppm, 2^-16 ppm units): freq=<n>, STA_UNSYNC cleared,
 *                          return value TIME_OK. The call itself is forwarded (read-only queries stay read-only).
 *   CBV_SHIM_STALL=<p>     the daemon stops for ever (a hung disk, SIGSTOP, a frozen cgroup) at point <p> of its work
 *                          on the segment file (any descriptor whose /proc/self/fd link ends in "/clockbound/shm"):
 *                            write:<k>  before its k-th write(2) to the file (k = 0, 1, ...)
 *                            fsync      before fsync/fdatasync of the file
 *                          CBV_SHIM_MARK=<path> is created when the stall begins.
 *   CBV_SHIM_EARLY_S=<n>   until the file named by CBV_SHIM_EARLY_MARK exists, every monotonic-family clock
 *                          (MONOTONIC, MONOTONIC_RAW, MONOTONIC_COARSE, BOOTTIME) reads <n> seconds LESS; afterwards the
 *                          clocks are the real ones. To the daemon that is a start-up <n> seconds ago (or a machine that
 *                          was paused for <n> seconds right after the daemon started). It is the early readings that are
 *                          shifted, not the late ones, so that every absolute timeout the daemon computes after the
 *                          mark agrees with the kernel's clock (timeouts computed before it are already in the
 *                          kernel's past and return at once, like spurious wake-ups).
 *   CBV_SHIM_RAW_LAG_S=<n> CLOCK_MONOTONIC_RAW reads <n> seconds less than it does: a host whose CLOCK_MONOTONIC chronyd has
 *                          slewed forward by that much over the weeks (RAW is never slewed).
 */
#define _GNU_SOURCE
#include <dlfcn.h>
#include <errno.h>
#include <fcntl.h>
#include <stdio.h>
#include <stdlib.h>
#include <string.h>
#include <sys/timex.h>
#include <time.h>
#include <unistd.h>

static int is_segment(int fd) {
    char link[64], target[512];
    snprintf(link, sizeof link, "/proc/self/fd/%d", fd);
    ssize_t n = readlink(link, target, sizeof target - 1);
    if (n <= 0) return 0;
    target[n] = 0;
    const char *suffix = "/clockbound/shm";
    size_t ls = strlen(suffix);
    return (size_t)n >= ls && strcmp(target + n - ls, suffix) == 0;
}

static void stall(void) {
    const char *m = getenv("CBV_SHIM_MARK");
    if (m) {
        int fd = open(m, O_CREAT | O_WRONLY, 0644);
        if (fd >= 0) close(fd);
    }
    for (;;) pause();
}

static int writes_seen = 0;

ssize_t write(int fd, const void *buf, size_t n) {
    static ssize_t (*real)(int, const void *, size_t);
    if (!real) real = dlsym(RTLD_NEXT, "write");
    const char *s = getenv("CBV_SHIM_STALL");
    if (s && strncmp(s, "write:", 6) == 0 && is_segment(fd)) {
        int k = atoi(s + 6);
        if (__sync_fetch_and_add(&writes_seen, 1) == k) stall();
    }
    return real(fd, buf, n);
}

int fsync(int fd) {
    static int (*real)(int);
    if (!real) real = dlsym(RTLD_NEXT, "fsync");
    const char *s = getenv("CBV_SHIM_STALL");
    if (s && strcmp(s, "fsync") == 0 && is_segment(fd)) stall();
    return real(fd);
}

int fdatasync(int fd) {
    static int (*real)(int);
    if (!real) real = dlsym(RTLD_NEXT, "fdatasync");
    const char *s = getenv("CBV_SHIM_STALL");
    if (s && strcmp(s, "fsync") == 0 && is_segment(fd)) stall();
    return real(fd);
}

static int doctor(struct timex *t, int r) {
    const char *f = getenv("CBV_SHIM_FREQ");
    if (!f || r < 0) return r;
    t->freq = atol(f);
    t->status &= ~STA_UNSYNC;
    return TIME_OK;
}

int adjtimex(struct timex *t) {
    static int (*real)(struct timex *);
    if (!real) real = dlsym(RTLD_NEXT, "adjtimex");
    return doctor(t, real(t));
}

int ntp_adjtime(struct timex *t) {
    static int (*real)(struct timex *);
    if (!real) real = dlsym(RTLD_NEXT, "ntp_adjtime");
    return doctor(t, real(t));
}

int clock_adjtime(clockid_t c, struct timex *t) {
    static int (*real)(clockid_t, struct timex *);
    if (!real) real = dlsym(RTLD_NEXT, "clock_adjtime");
    return doctor(t, real(c, t));
}

int clock_gettime(clockid_t c, struct timespec *ts) {
    static int (*real)(clockid_t, struct timespec *);
    if (!real) real = dlsym(RTLD_NEXT, "clock_gettime");
    int r = real(c, ts);
    if (r == 0 && (c == CLOCK_MONOTONIC || c == CLOCK_MONOTONIC_RAW || c == CLOCK_MONOTONIC_COARSE || c == CLOCK_BOOTTIME)) {
        static int over = 0;
        const char *j = getenv("CBV_SHIM_EARLY_S"), *m = getenv("CBV_SHIM_EARLY_MARK");
        if (j && m && !over) {
            if (access(m, F_OK) == 0) over = 1;
            else if (ts->tv_sec > atol(j) + 10) ts->tv_sec -= atol(j);
        }
    }
    if (r == 0 && c == CLOCK_MONOTONIC_RAW) {
        const char *l = getenv("CBV_SHIM_RAW_LAG_S");
        if (l && ts->tv_sec > atol(l) + 10) ts->tv_sec -= atol(l);
    }
    return r;
}
