#!/bin/bash
# Run every check's thorough tier in sequence, recording wall time and exit status (used with `vp run`).
cd "$(dirname "$0")/.."
[ -n "${VP_RUN_REPO:-}" ] && export VERIF_REPO="$VP_RUN_REPO"
export VERIF_EVIDENCE_DIR="${VERIF_EVIDENCE_DIR:-$PWD/evidence-thorough}"
mkdir -p "$VERIF_EVIDENCE_DIR"
./check --build || exit 2
for c in ${CHECKS:-C05 C06 C14 C16 C17 C19 C12 C10 C11 C13 C09 C08 C07 C15 C03 C18 C04 C02 C01}; do
  s=$(date +%s)
  ./check $c --tier thorough > "$VERIF_EVIDENCE_DIR/$c.log" 2>&1; rc=$?
  echo "$c rc=$rc wall=$(( $(date +%s) - s ))s $(tail -1 "$VERIF_EVIDENCE_DIR/$c.log")"
done
