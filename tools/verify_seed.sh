#!/bin/bash
# verify_seed.sh <dir-with-patch.diff-and-demo> : confirm a seeded change in a scratch worktree of /repo:
#   the repository suite passes with it, its demonstration fails with it and passes without it.
# Prints one summary line; leaves nothing behind. Never touches /repo's working tree.
D="$(cd "$1" && pwd)"; W=/tmp/cbv-seedverify-$$
git -C /repo worktree add -q "$W" HEAD || exit 2
trap 'git -C /repo worktree remove --force "$W" 2>/dev/null; rm -rf "$W"' EXIT
cd "$W" && git apply "$D/patch.diff" || { echo "$(basename "$D") cannot-apply"; exit 2; }
suite=FAIL
for try in 1 2; do
  if CARGO_NET_OFFLINE=true cargo test --workspace --offline >"$W/.suite.log" 2>&1; then suite=pass; break; fi
done
[ $suite = FAIL ] && grep -E "^test .*FAILED|panicked" "$W/.suite.log" | head -5
rm -f "$W/.suite.log"
(cd / && timeout 1800 bash "$D/demo/run.sh" "$W" >"/tmp/cbv-seedverify-$$.with.log" 2>&1); with=$?
git -C "$W" checkout -q -- . ; git -C "$W" clean -fdq -e target
(cd / && timeout 1800 bash "$D/demo/run.sh" "$W" >"/tmp/cbv-seedverify-$$.without.log" 2>&1); without=$?
echo "$(basename "$D") suite=$suite demo_with_change_rc=$with demo_without_change_rc=$without"
[ $with = 0 ] && tail -5 "/tmp/cbv-seedverify-$$.with.log"
[ $without != 0 ] && tail -15 "/tmp/cbv-seedverify-$$.without.log"
rm -f /tmp/cbv-seedverify-$$.*.log
