#!/bin/bash
# mutant.sh <patch> <check> [<check>...] : apply a mutant to /repo, run the named checks (quick), revert.
# prints one line per check: <patch> <check> rc=<rc>
P="$1"; shift
cd /repo && git checkout -q -- . && git apply "$P" || { echo "cannot apply $P"; exit 2; }
for c in "$@"; do
  out=$(/verif/check "$c" --tier quick 2>&1); rc=$?
  echo "$(basename "$P" .patch) $c rc=$rc $(echo "$out" | grep -E '^(VIOLATION|MACHINERY|KNOWN)' | head -2 | tr '\n' ' ')"
done
cd /repo && git checkout -q -- .
rm -f /verif/replays/*.json
