#!/usr/bin/env python3
"""Single source for MANIFEST.json: edit CHECKS / NOT_APPLICABLE here, run, commit."""
import json, subprocess, sys, os
V = os.path.dirname(os.path.dirname(os.path.abspath(__file__)))
props = [json.loads(l) for l in open(f"{V}/properties.jsonl")]

def hook_commits():
    out = subprocess.run(["git", "-C", "/repo", "log", "--format=%H %s"], capture_output=True, text=True).stdout
    return [l.split()[0] for l in out.splitlines() if l.split(" ", 1)[1].startswith("verif hooks")][::-1]

GRID_NOTE = ("Trusted base: the virtual clock (the harness executable interposes clock_gettime), the reference model in "
             "harness/src/gridmc/clientgrid.rs (exact i128 arithmetic), the finite alphabets listed in the evidence file. "
             "Exhaustive over the alphabet product, not over the full 2^300 input domain.")

CHECKS = {
 "C05": dict(engine="gridmc", category="exploration", technique="bounded-exhaustive enumeration of an input alphabet product on the real code against an exact reference model",
   text="Every point of the cross product of boundary alphabets (as-of, void-after, age incl. negative/zero/sub-tick/hours/68 years, bound, drift, status, realtime reading) is run through the real ClockErrorBound::now() under a virtual clock and, on a reduced grid, through ClockBoundClient::now() over a real segment; symmetry, exact width law (+/-1 ns) and monotonicity in age are checked on each. The age alphabet is structural, not only boundary points: ages decomposed as (whole seconds x nanoseconds) in both signs, wrap points of narrowing conversions (k x 2^w x unit for unit in ns/us/ms/s, w in 16/31/32), thresholds +/- 1 ns; thorough adds dense +/-40 ns windows around every comparison point and a geometric sweep (226 M evaluations). A sequential pure function: small-scope exhaustive input enumeration is the model-checking reading of a for-all-inputs property.",
   design_ref="6", note=GRID_NOTE),
 "C06": dict(engine="gridmc", category="exploration", technique="bounded-exhaustive enumeration of an input alphabet product on the real code against an exact reference model",
   text="Same grid; the returned status is compared with the status table of the statement for all three stored statuses, with readings 1 ns either side of as-of+5 s and of void-after (reading exactly at void-after: FreeRunning or Unknown both accepted, the statement leaves it open).",
   design_ref="6", note=GRID_NOTE),
 "C14": dict(engine="gridmc", category="exploration", technique="bounded-exhaustive enumeration of an input alphabet product on the real code against an exact reference model",
   text="Same grid with overflow checks on: error kind by region (drift >= 1e9 -> malformed; age <= -blur -> causality; inside the blur age treated as zero), the blur threshold is measured by bisection and required to be a single value in [2 ns, 10 ms]; no panic anywhere in the +/-68 year / < 2^60 ns range; injected clock_gettime failures must surface as the syscall error with errno and detail through both the shm and the client API.",
   design_ref="6", note=GRID_NOTE),
}

SEQ_NOTE = ("Trusted base: the cfg-gated interception layer in clock-bound-shm/src/verif.rs (every atomic access, fence and record copy of reader.rs/writer.rs goes through it; a static scan and a run-time byte comparison refuse to judge (exit 2) code that bypasses it), "
            "the memory-model simulator harness/src/seqmc/ra.rs (validated on every run against 16 litmus programs with hand-derived C11 outcome sets, and cross-checked against loom 0.7.2 on the same programs: outcome sets equal), the writer-first reduction and stutter elimination argued in DESIGN.md 3.1/3.3. "
            "Bounds: K <= 2-3 updates per incarnation, <= 2-3 incarnations, record split in 2/4/7 chunks; the reader's number of calls is unbounded (fixpoint over its cache states).")
SEQ_TECH = "stateless model checking of the real ShmWriter/ShmReader under a simulated C11 release/acquire memory model (exhaustive read-from / interleaving / crash-point enumeration, reader states to a fixpoint)"
CHECKS.update({
 "C02": dict(engine="seqmc", category="model_checking", technique=SEQ_TECH,
   text="For every writer trace (initial generations incl. the 16-bit wrap and odd crash-left values, K<=2..3 updates) the real snapshot() is executed for every reader attach point and every read-from choice the C11 RA model allows at each load (all choices for 2 chunks; bounded number of stale reads for 7 words), breadth-first over the reader's cache states to a fixpoint; every returned record must be the empty record or a completed publication. Also with the writer stopped for ever at every point, running retry-exhausting calls in full. Record families: all-distinct words, status-only changes, real records alternating with the all-zero placeholder, an identical record republished. This is the property's quantifier (all interleavings x all RA executions) up to the stated bounds. A read(2)/pread(2) of the segment file by the reader (ShmReader::new reads the header that way) is part of the model: its record bytes are loads of the simulated memory with the same read-from choices as a copy through the mapping. The time budget is a safety net (600 s quick); a search cut by it says so on its OK line.",
   design_ref="3", note=SEQ_NOTE),
 "C03": dict(engine="seqmc", category="model_checking", technique=SEQ_TECH,
   text="Same exploration; publication index returned by successive calls never decreases (RA and SC modes); in SC mode (all interleavings of writer events with reader loads, canonicalised per location) a call all of whose loads are explained by an idle writer position (idleness is independent of the generation's parity) must return the latest completed publication there (compared by content, so repeated records are handled). Plus a 70 000-publication sequential run through the wrap with long-lived, sparse and fresh readers and clean restarts, for behaviour that only arms after many updates.",
   design_ref="3.3, 3.4", note=SEQ_NOTE),
 "C04": dict(engine="seqmc", category="fault_enumeration", technique=SEQ_TECH + "; crash at every intercepted writer event, restart",
   text="Two (thorough: three) writer incarnations with a crash after every intercepted event of ShmWriter::new / wipe / write (each file operation of wipe, the version store, each generation store, each record chunk), then a restart; readers attached at every position (the attach itself is explored like a call): (a) only complete records, in order (RA + SC), (b) SC freshness after the restarted daemon's first publication, (c) writer-trace oracles: a valid segment is never wiped/emptied/re-laid-out, an unusable one is attachable and 72 bytes after the first publication; ShmReader::new accepts exactly the file states the documented header rules call valid. The first plan is repeated in a least-privilege environment (daemon and clients in a forked child as uid 65534, no capabilities, RLIMIT_MEMLOCK 0, umask 022) with the same oracles; its violations replay in that environment.",
   design_ref="3.3, 3.4", note=SEQ_NOTE),
 "C11": dict(engine="seqmc", category="model_checking", technique="explicit-state closure over (generation, idle/in-flight) with the successor relation computed by the real ShmWriter::write for all 65535 start values x crash points",
   text="All 65535 non-zero start generations x {three consecutive updates by one writer instance; crash after each of the 4 events of an update followed by a restart and three more updates}, plus the histories from a freshly wiped segment: in the file as a third-party reader sees it the generation is odd at every position inside an update, the record is only modified while it is odd, it is even, non-zero and changed after the update, 0 is never visible after the segment has been published to (at any trace position, including a restarted writer's start-up), the wrap continues at 2; plus the 70 000-publication sequential run. Because every value is a start value, the invariant is inductive; the reachable closure from the wiped segment is reported as states/transitions.",
   design_ref="3.5", note="Trusted base: interception layer as for C02; file snapshots after every event. Exhaustive over the 16-bit generation domain."),
 "C18": dict(engine="seqmc", category="model_checking", technique=SEQ_TECH,
   text="The writer stops for ever at every position of every trace (RA with bounded stale reads, SC with all interleavings); every snapshot() call of every reader must return after at most 5e6 record copies; a call that finds an update in flight (odd or zero generation, version 0) must answer Ok from its previous snapshot within 64 loads. Calls that spin on a dead writer are really executed to the end of the retry budget once per distinct signature and otherwise cut after 3000 identical iterations. Plus two directed single schedules for the continuously-updating-writer clause: a free-running writer thread, and a deterministic adversary that completes one update between every record copy and re-check of the reader 3e6 times (a bounded reader gives up by itself; returning only once the adversary stops is a violation).",
   design_ref="3.3, 3.4", note=SEQ_NOTE),
})

CHECKS.update({
 "C07": dict(engine="gridmc", category="exploration", technique="bounded-exhaustive enumeration of wire-level inputs (alphabet product + whole-field sweeps) through the real decode/update path against an exact dyadic-rational reference",
   text="Tracking replies are built as wire bytes, decoded by chrony-candm's Reply::deserialize, sent as messages into the real process_messages loop, and the bound of the published record is compared with the exact value of |offset| + dispersion + delay/2 (+PHC) rounded up, computed in 256-bit integer arithmetic on the dyadic values of the three chrony floats (accepted: the IEEE-double evaluation envelope, one integer except within 2^-50 relative of an integer). Quick: product of per-field alphabets (both offset signs, sub-ns to 1e6 s, extreme exponents) x PHC values plus every 65537th of the 2^32 offset encodings; thorough: all 2^32 offset encodings (two delay/dispersion pairs) and all 2^25 coefficients x 5 exponents for delay and dispersion. The PHC term is also exercised through the real poller (PHC configured and matching, error bound read from a file) for 4 variants of the report fields that should not matter.",
   design_ref="6", note="Trusted base: the wire builder (cross-checked against the crate's decoder at start-up), the 256-bit reference arithmetic. Reports with |value| >= 2^30 s or negative delay/dispersion are outside the statement's meaningful range and are not judged."),
})

HIST_NOTE = ("Trusted base: virtual time (clock_gettime interposed by the harness executable: libc, std::time::Instant and SystemTime all read it), the cfg-gated entry points clock_bound_d::verif_writer::process_messages_with / verif_poller::run_poller (they only forward to the private real functions) and the chrony-query seam, "
             "the wire builder (cross-checked against chrony-candm's decoder at start-up), the reference models in harness/src/histmc/props.rs. The poller thread and the writer thread share only a FIFO, so their sequential composition is one legal schedule with the same records; thread interleavings are C15's subject.")
HIST_TECH = "exhaustive enumeration of all event histories up to a depth over a finite alphabet, each replayed through the real implementation in virtual time and compared step by step with a reference model"
CHECKS.update({
 "C08": dict(engine="histmc", category="model_checking", technique=HIST_TECH,
   text="Phase 1: every sequence of poll outcomes of depth 5 (thorough 8) over 10 outcome kinds (two distinguishable synchronised reports, unsynchronised, stale, bad leap, future reference time, no reply within/beyond grace, PHC failure within/beyond grace) x 4 drift/PHC configurations is fed as messages into the real process_messages/ShmUpdater/FSM; every published record of every prefix is compared field by field (as-of, bound via the exact C07 reference, void-after, drift, status once a synchronised report was seen) with a reference updater; one publication per outcome. Phase 2: every sequence of depth 4 (thorough 6) of poll answers (tracking with the PHC's id and a readable / unreadable PHC file, another id, unsynchronised, stale, silence) x gap 1 s / 5.1 s through the real poller AND the real writer loop; the published status must be the documented one for the outcome (within / beyond grace decided by the age of the last good answer).",
   design_ref="4.3", note=HIST_NOTE),
 "C09": dict(engine="histmc", category="model_checking", technique=HIST_TECH,
   text="Every sequence of non-synchronised outcomes of depth 5 (thorough 8) after a daemon start at two machine uptimes: every record published before the lifetime's first synchronised report must carry Unknown; every distinct record so published is then written through the real ShmWriter (fresh segment, and restart over an older good record) and evaluated by the real client library (new and long-lived client) at uptimes 5/100/999/1001 s: it must say Unknown.",
   design_ref="4.4", note=HIST_NOTE),
 "C10": dict(engine="histmc", category="exploration", technique="exhaustive sweep of the 16-bit leap-status domain x boundary alphabets through the real decode/classify/FSM path against a reference classifier",
   text="All 65536 leap-status values x update-interval alphabet x reference-time ages on both sides of 'now' and of the eight-interval threshold (exact dyadic threshold, +/-1 ns, whole-second neighbours) x previous status, as wire-decoded tracking messages through the real process_messages; published status compared with the reference classification (ages inside (floor(8I) s, 8I] are a don't-care); ages include the wrap points of narrowing conversions. Phase 2: the same report processed twice with virtual time advancing in between (every pair of ages, with and without an outage message between): a classification must not be cached. Variant 0 of the report fields no property gives a meaning to (stratum, source address, last/RMS offset, frequencies, skew) is crossed with every leap code, three more variants (small mixed signs, large positive, extreme encodings) with the leap codes around the documented ones (thorough: and every 257th).",
   design_ref="4.3, 4.4", note=HIST_NOTE),
 "C12": dict(engine="histmc", category="exploration", technique="exhaustive enumeration of delay placements (virtual time advancing at each clock read and during the request) with a logged clock-read order",
   text="For every combination of per-read time advance and reply latency: on the daemon side the as-of of the emitted message must be a monotonic reading logged before the request to chronyd; on the client side (record API and client library over a real segment) the realtime clock is read before the monotonic clock, the interval is centred on the realtime reading and its half-width is at least bound + drift x (the monotonic reading taken after the realtime reading the interval is centred on - as-of); start ages include ones just before as-of so that the clock crosses the causality window during the call (a retry path is then taken). Transient failures: for advance 0 / 1 ms and latency 0 / 10 ms, each clock read of the poll in turn fails once (EINVAL); the poll may end without a report or the thread may die, but a report that is sent must still carry a monotonic reading taken before the request.",
   design_ref="4.4", note=HIST_NOTE),
 "C13": dict(engine="histmc", category="model_checking", technique=HIST_TECH,
   text="Every sequence up to depth 3 (thorough 4) of (answer kind: tracking with the PHC's reference id / another id / silence / a non-tracking reply) x (PHC file readable or not) x (gap since the previous poll: 0.1, 1, 4.9, 5, 5.1, 100 s; reply latency 0 or 2.9 s) x (PHC configured or not) through the real polling loop with the real ClockErrorBoundPoller (virtual Instant): the message sent to the writer thread is compared with a reference poller (grace iff the last good answer is < 5 s old, Unknown-class immediately after start, PHC bound added iff the ids match, PHC read failure never a data message, as-of = the poll instant). PHC read failures: missing file, and read(2) failing with EIO/EOPNOTSUPP/EBUSY/ENODEV on a file that opens (read interposed by the harness); 4 variants of the report fields no property gives a meaning to (stratum 0/1/2/15, source address, ...); gaps include 2^32 us/ms + 1 s; one 7 350-poll lifetime. The step alphabet also contains polls before which the realtime clock was stepped by -4 s, +4.5 s and -100 s while the monotonic clock continues (the grace period is a matter of elapsed time).",
   design_ref="4.4", note=HIST_NOTE),
})

CHECKS.update({
 "C19": dict(engine="procmc", category="exploration", technique="bounded-exhaustive enumeration of a boundary alphabet of command lines on the real release binary (private mount namespaces), exact oracle",
   text="The release clockbound binary (built without hooks from the current tree) is started once per --max-drift-rate value in a private mount namespace with its own tmpfs on /run; the drift field of the segment it publishes must be exactly 1000 x the value (1000 when omitted), or the process must exit non-zero without publishing. Alphabet: every 2003rd (thorough: every 97th) representable rate (a prime-stride progression: scattered single-value errors, e.g. of a float conversion, are hit), small values, powers of two +/- 1 and, for every k = 1..999 (thorough; a subset in quick), both sides of the point where value x 1000 crosses k x 2^32, so any wrapping/truncating/saturating conversion is caught; plus arguments clap must reject. Not exhaustive over 2^32 values (stated in the evidence). The structured values are crossed with how the option reaches the program: --max-drift-rate=V, -m V, and before / after -r PHC0 -i <interface> on an interface with a (faked, tmpfs over /sys/class/net in the private namespace) PTP hardware clock; the flag omitted with and without the PHC options.",
   design_ref="7", note="Trusted base: unshare/tmpfs isolation, od/stat to read the published segment. Without chronyd the first poll fails at once and the first (Unknown) record is published within milliseconds."),
})

CHECKS.update({
 "C15": dict(engine="threadmc", category="model_checking", technique="stateless model checking of the real daemon threads under a controlled (baton) scheduler: iterative preemption-bounded DFS over schedules x exhaustive fault placement",
   text="The real thread_manager::run with its real poller and writer threads (std threads serialised by a baton behind cfg-gated mpsc/spawn stand-ins, virtual time) is executed for every schedule with at most 2 (thorough: 4) preemptions and at most 1 (2) unfairly early timeouts, for every fault placement: victim in {poller, writer} x every fault opportunity of start-up and the first 3 (4) loop iterations (before/after every send, receive, chrony query; the named loop-head and start-up points) x {panic, early return}, a real start-up failure (segment path uncreatable), chronyd answering / absent / wedged (an environment model of the datagram exchange that honours the client's own timeout and retry options), both orders of the abort broadcast. Oracle on every execution in which the fault fired: run() returns, every thread is joined, no deadlock (the daemon lingering), exit within 4 + u virtual seconds (+ one request in progress when chronyd is wedged). A tracing subscriber is installed as the daemon's main() does (same maximum level, output discarded), so the arguments of log statements are evaluated on every path.",
   design_ref="5", note="Trusted base: the scheduler in harness/src/threadmc/sched.rs; the stand-ins in clock-bound-d/src/verif.rs (they wrap the real std channels and threads; a disagreement between the model queue and the real channel is a hard error). Code between two scheduling points is assumed atomic (workers share nothing but channels and the segment). Bounded preemptions and horizon; not an unbounded liveness proof."),
})

CHECKS.update({
 "C16": dict(engine="gridmc", category="exploration", technique="bounded-exhaustive enumeration of a structured alphabet of file contents and path kinds on the real open / repair paths against a validator transcribed from the documentation",
   text="Every truncation/extension length 0..80 of a valid segment, the product magic x declared size x version x generation x body, every single-byte mutation (5 values) of the first 64 bytes, and missing file / missing parents / directory / dangling symlink: ShmReader::new and ClockBoundClient::new_with_path must return exactly the outcome the documented header rules give (kind, errno for system calls), never crash (each case runs in a forked worker); then the real ShmWriter::new + one write() over the same path: a fresh reader and the client library read back exactly the published record, and a file that was unusable is exactly the documented 72-byte layout afterwards. Every case is evaluated twice: everything as the harness user, and with the client-side steps (open before the repair, open / read back after the first publication) in a forked child running as uid 65534 with no capabilities and RLIMIT_MEMLOCK 0 while the daemon-side steps stay with the harness user (a client does not own the segment).",
   design_ref="6", note="Trusted base: the validator in harness/src/gridmc/segfiles.rs (transcribed from the statement and docs); tmpfs semantics. Structured alphabet, not all byte contents (stated in the evidence)."),
 "C17": dict(engine="gridmc", category="exploration", technique="bounded-exhaustive enumeration + differential execution (C library vs Rust client on the same segment at the same virtual instant; file bytes vs a decoder transcribed from the protocol document)",
   text="(i) 9000 records (product of field alphabets x 3 statuses) written by the real ShmWriter are decoded from the file with offsets/widths transcribed by hand from docs/PROTOCOL.md (magic in any of the readings the document allows, size 72, version 1, even generation, every field, status 0/1/2). (ii) A C program compiled at check time against clockbound.h and linked with the freshly built libclockbound.so and libclockbound.a (it defines clock_gettime itself, so the library reads the scripted clock) is compared with the Rust client on ~5300 cases per library: record x age grid incl. both status thresholds and the causality window, injected clock_gettime failures, and the C16 file alphabet for clockbound_open; interval, status, error kind, errno and detail must agree; (iii) every sequence of up to 3 segment mutations (a complete publication, an update left in flight, a wipe, nothing) with long-lived contexts in both libraries and a now() after every step - the two libraries must carry the same reader state. Also: the first / second open(2), header read(2) and mmap(2) made while a client opens a valid segment fail once with EINTR, EAGAIN, EIO, ENOMEM, EACCES, EMFILE (interposed in the harness and in the C program) - both libraries must report the same kind and errno; a library call that does not return within 20 s of real time is reported as such.",
   design_ref="6", note="Trusted base: cc, symbol interposition of clock_gettime (checked: the C program reports which clock the library read first), the hand-transcribed decoder."),
})

CHECKS.update({
 "C01": dict(engine="histmc", category="model_checking", technique=HIST_TECH + "; a physical world model with an extremal clock-error adversary supplies the oracle",
   text="Every history of poll events up to length 3 (thorough 4) over 9 answer kinds (four synchronised reports incl. negative offset, all-zero and sub-ns values; unsynchronised; stale; unusable; silence; non-tracking reply) with <= 1 (2) timing deviations (poll gap 4.9/5.1/1001 s, reply latency 10 ms/2.9 s, daemon restart after 0.1/10/2000 s) x drift 1/50 ppm x machine uptime 100/5000 s x adversary (error sign; report valid at request or at reply) runs through the whole real pipeline (wire reply -> poller -> updater/FSM -> ShmWriter -> file -> ShmReader -> ClockBoundClient::now(), long-lived and newly opened clients). The realtime clock shows true time plus the largest error the provisos allow (min over past valid reports of B_i + drift x elapsed; 1 s before the first). At every publication, just before the next event, 1 ns either side of as-of+5 s and void-after, up to 1 h after the last event, and with a 3 s preemption between the client's two clock reads (chronyd's reference time is quantised to a 16 s source cadence so that consecutive reports share it; one 2 000-event history for count-armed behaviour): status trusted => earliest-1 <= true time <= latest+1.",
   design_ref="4.3, 4.4", note=HIST_NOTE + " World assumptions: monotonic clock at the true rate (COARSE granularity not modelled); the error's magnitude grows no faster than the configured drift; containment is linear, so extremal trajectories and endpoint/threshold instants are the worst cases."),
})

NOT_APPLICABLE = {}

def main():
    checks = []
    for pid, c in CHECKS.items():
        checks.append({
            "property_id": pid,
            "quick_cmd": f"./check {pid} --tier quick",
            "thorough_cmd": f"./check {pid} --tier thorough",
            "evidence_file": f"/verif/evidence/{pid}.json",
            "replay_cmd_template": f"./check {pid} --replay {{path}}",
            "engine": c["engine"],
            "level_claimed": {"category": c["category"], "text": c["text"], "design_ref": "DESIGN.md section " + c["design_ref"]},
            "level_note": c["note"],
            "technique": c["technique"],
        })
    na = []
    for p in props:
        if p["id"] in CHECKS:
            continue
        na.append({"property_id": p["id"], "reason": NOT_APPLICABLE.get(p["id"], "check not built yet (work in progress; DESIGN.md section 8 names the planned engine)")})
    m = {
        "version": 1,
        "setup_cmd": "./check --build",
        "hooks": {
            "guard": "--cfg clock_bound_verif",
            "enable": "RUSTFLAGS='--cfg clock_bound_verif' (set by ./check when it builds harness/ against /repo's crates into /verif/target/hooks)",
            "baseline_off_cmd": "cd /repo && cargo test --workspace --no-fail-fast --offline",
            "source_commits": hook_commits(),
            "add_only": True,
        },
        "engines": [
            {"name": "gridmc", "path": "harness/src/gridmc", "serves_properties": [p for p, c in CHECKS.items() if c["engine"] == "gridmc"], "kind_free_text": "bounded-exhaustive input enumeration of the real public APIs under a virtual clock against exact integer reference models"},
            {"name": "seqmc", "path": "harness/src/seqmc", "serves_properties": [p for p, c in CHECKS.items() if c["engine"] == "seqmc"], "kind_free_text": "stateless exploration of the real ShmWriter/ShmReader under a simulated C11 release/acquire memory model: writer crash points x reader attach points x read-from choices, reader states to a fixpoint"},
            {"name": "histmc", "path": "harness/src/histmc", "serves_properties": [p for p, c in CHECKS.items() if c["engine"] == "histmc"], "kind_free_text": "exhaustive enumeration of poll-outcome histories through the real poller/updater/FSM/segment/client pipeline in virtual time"},
            {"name": "threadmc", "path": "harness/src/threadmc", "serves_properties": [p for p, c in CHECKS.items() if c["engine"] == "threadmc"], "kind_free_text": "controlled (baton) scheduler over the three real daemon threads: preemption-bounded DFS x fault placements"},
            {"name": "procmc", "path": "harness/src/procmc", "serves_properties": [p for p, c in CHECKS.items() if c["engine"] == "procmc"], "kind_free_text": "the real release binary run in private mount namespaces over a boundary alphabet of command lines"},
        ],
        "checks": checks,
        "not_applicable": na,
        "notes": "All checks run the real code of /repo rebuilt from its working tree. exit 2 = machinery failure (never a verdict). Known findings: /verif/known_findings.json.",
    }
    m["engines"] = [e for e in m["engines"] if e["serves_properties"]]
    json.dump(m, open(f"{V}/MANIFEST.json", "w"), indent=1)
    print("checks:", len(checks), "not_applicable:", len(na))

main()
