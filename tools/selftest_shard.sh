#!/bin/bash
# selftest_shard.sh <shard name> <SEEDED 0|1> <pattern>... : one shard of the matrices, for running several in parallel
# (each shard has its own scratch worktree and matrix file <matrix>.<shard>); prints its matrix at the end.
cd "$(dirname "$0")/.."
export SHARD="$1"; seeded="$2"; shift 2
mkdir -p target
for pat in "$@"; do
  if [ "$seeded" = 1 ]; then SEEDED=1 tools/selftest.sh "$pat" >> target/selftest-shard-$SHARD.log 2>&1; else tools/selftest.sh "$pat" >> target/selftest-shard-$SHARD.log 2>&1; fi
done
echo "=== matrix of shard $SHARD"; cat mutants/MATRIX.txt.$SHARD seeded/MATRIX.txt.$SHARD 2>/dev/null
