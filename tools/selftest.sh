#!/bin/bash
# selftest.sh [pattern]: for every mutants/<pattern>*.patch: apply it to a scratch worktree of /repo
# (never to /repo itself), run the repository suite there (guard off) and every check's quick tier
# against it (VERIF_REPO), revert. One line per mutant goes to stdout and mutants/MATRIX.txt:
#   <name> tests=<pass|FAIL> fired=[checks with exit 1] broken=[checks with exit 2]
# benign-* variants must fire nothing; every other patch must fire at least one check.
# With SEEDED=1 the patches are seeded/<pattern>*/patch.diff (the repository suite is not re-run: each was
# confirmed when it was stored) and the lines go to seeded/MATRIX.txt.
# CHECKS_LIST=<file of lines "<name> <check>..."> restricts the run to the named changes and, for each, to the named
# checks (the cheap regression form: tools/seeded_list.txt is generated from the meta.json files).
# SKIP_SUITE=1: do not re-run the repository suite for mutants/ (regression runs).
# VERIF_WALL_CAP_S (default here: 600) bounds a check that a change makes hang; it is then listed as broken.
# The scratch worktree and its build output are removed at the end.
V="$(cd "$(dirname "$0")/.." && pwd)"   # works from a snapshot of /verif as well (vp run)
cd "$V"; mkdir -p "$V/target"
PAT="${1:-}"
OUT=$V/mutants/MATRIX.txt
[ -n "${SEEDED:-}" ] && OUT=$V/seeded/MATRIX.txt
export VERIF_WALL_CAP_S="${VERIF_WALL_CAP_S:-600}"
SCR=/tmp/cbv-selftest-$(echo -n "$V${SHARD:-}" | md5sum | cut -c1-6)
[ -n "${SHARD:-}" ] && OUT=$OUT.$SHARD
[ -z "$PAT" ] && : > $OUT
ALL="C01 C02 C03 C04 C05 C06 C07 C08 C09 C10 C11 C12 C13 C14 C15 C16 C17 C18 C19"
git -C /repo worktree remove --force $SCR 2>/dev/null
git -C /repo worktree add -q $SCR HEAD || exit 2
export VERIF_REPO=$SCR
TAG="-$(echo -n "$SCR" | md5sum | cut -c1-8)"
cleanup() {
  git -C /repo worktree remove --force $SCR 2>/dev/null
  rm -rf $V/target/hooks$TAG $V/target/plain$TAG $V/harness$TAG $V/target/build$TAG.log* $V/target/selftest${SHARD:-}
}
trap cleanup EXIT
if [ -n "${SEEDED:-}" ]; then LIST=$(ls seeded/${PAT}*/patch.diff); else LIST=$(ls mutants/${PAT}*.patch); fi
for P in $LIST; do
  if [ -n "${SEEDED:-}" ]; then name=$(basename $(dirname $P)); else name=$(basename $P .patch); fi
  checks="${CHECKS:-$ALL}"
  if [ -n "${CHECKS_LIST:-}" ]; then   # a file of lines "<name> <check>..." : only these changes, only these checks
    checks=$(awk -v n="$name" '$1==n {$1=""; print}' "$CHECKS_LIST"); [ -z "$checks" ] && continue
  fi
  ( cd $SCR && git checkout -q -- . && git apply $V/$P ) || { echo "$name cannot-apply" | tee -a $OUT; continue; }
  if [ -n "${SEEDED:-}" ]; then t=confirmed-earlier; elif [ -n "${SKIP_SUITE:-}" ]; then t=not-rerun; elif ( cd $SCR && CARGO_TARGET_DIR=$V/target/selftest${SHARD:-} cargo test --workspace --no-fail-fast --offline >$V/target/selftest${SHARD:-}.log 2>&1 ); then t=pass; else t=FAIL; fi
  fired=""; broken=""
  for c in $checks; do
    VERIF_EVIDENCE_DIR=$SCR-evidence ./check $c --tier quick >$V/target/selftest-check${SHARD:-}.log 2>&1; rc=$?
    [ $rc -eq 1 ] && fired="$fired $c"
    [ $rc -ge 2 ] && broken="$broken $c"
  done
  ( cd $SCR && git checkout -q -- . )
  ran=""; [ -n "${CHECKS_LIST:-}" ] && ran=" ran=[$(echo $checks)]"
  echo "$name tests=$t fired=[${fired# }] broken=[${broken# }]$ran" | tee -a $OUT
done
rm -rf $SCR-evidence
