#!/bin/bash
# selftest.sh [pattern]: for every mutants/<pattern>*.patch apply it to /repo, run the repository suite
# (guard off) and every check's quick tier, revert. Prints one line per mutant:
#   <name> tests=<pass|FAIL> fired=<checks with rc 1> broken=<checks with rc 2>
# Benign variants (benign-*) must fire nothing. Results go to /verif/mutants/MATRIX.txt as well.
cd /verif
PAT="${1:-}"
OUT=/verif/mutants/MATRIX.txt
[ -z "$PAT" ] && : > $OUT
ALL="C01 C02 C03 C04 C05 C06 C07 C08 C09 C10 C11 C12 C13 C14 C15 C16 C17 C18 C19"
for P in mutants/${PAT}*.patch; do
  name=$(basename $P .patch)
  ( cd /repo && git checkout -q -- . && git apply /verif/$P ) || { echo "$name cannot-apply" | tee -a $OUT; continue; }
  if ( cd /repo && CARGO_TARGET_DIR=/verif/target/selftest cargo test --workspace --no-fail-fast --offline >/verif/target/selftest.log 2>&1 ); then t=pass; else t=FAIL; fi
  fired=""; broken=""
  for c in ${CHECKS:-$ALL}; do
    ./check $c --tier quick >/verif/target/selftest-check.log 2>&1; rc=$?
    [ $rc -eq 1 ] && fired="$fired $c"
    [ $rc -ge 2 ] && broken="$broken $c"
  done
  ( cd /repo && git checkout -q -- . )
  rm -f /verif/replays/*.json
  echo "$name tests=$t fired=[${fired# }] broken=[${broken# }]" | tee -a $OUT
done
# leave the evidence files describing the unchanged tree
