#!/bin/bash
# Both matrices (hand-made changes, then seeded changes); prints them at the end (for `vp run`, whose snapshot is discarded).
cd "$(dirname "$0")/.."
mkdir -p target
./check --build || exit 2
tools/selftest.sh > target/selftest-mutants.log 2>&1
SEEDED=1 tools/selftest.sh > target/selftest-seeded.log 2>&1
echo "=== mutants/MATRIX.txt"; cat mutants/MATRIX.txt
echo "=== seeded/MATRIX.txt"; cat seeded/MATRIX.txt
