#!/usr/bin/env python3
"""mkmutant.py <name> <file> <old> <new> [<file> <old> <new>...]: write mutants/<name>.patch (a diff against /repo HEAD)."""
import sys, subprocess
name = sys.argv[1]
args = sys.argv[2:]
assert len(args) % 3 == 0
subprocess.run(["git", "-C", "/repo", "checkout", "--", "."], check=True)
for i in range(0, len(args), 3):
    fn, old, new = args[i:i+3]
    p = "/repo/" + fn
    s = open(p).read()
    assert s.count(old) == 1, (fn, old, s.count(old))
    open(p, "w").write(s.replace(old, new))
d = subprocess.run(["git", "-C", "/repo", "diff"], capture_output=True, text=True).stdout
open(f"/verif/mutants/{name}.patch", "w").write(d)
subprocess.run(["git", "-C", "/repo", "checkout", "--", "."], check=True)
print("wrote", name, len(d.splitlines()), "lines")
