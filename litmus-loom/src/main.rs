//! Cross-check of the harness's C11 release/acquire simulator (harness/src/seqmc/ra.rs) against loom,
//! an independent implementation of the same model. Reads the litmus suite as JSON on stdin (dumped
//! by `cbv litmus-dump`, so both sides run the same programs) and prints, per program, the set of
//! final register valuations loom produces. The harness then requires loom's set to be a subset of
//! the simulator's (the simulator is never stronger than loom) and reports whether they are equal.
//!
//! Minimal JSON handling by hand: loom's own workspace has no serde_json in the offline cache.

use loom::sync::atomic::{fence, AtomicU8, Ordering};
use loom::sync::Arc;
use std::collections::BTreeSet;
use std::io::Read;
use std::sync::Mutex;

#[derive(Clone, Debug)]
enum Op {
    St(usize, u8, Ordering),
    Ld(usize, usize, Ordering),
    Rmw(usize, u8, Ordering),
    Fence(Ordering),
}

#[derive(Clone, Debug)]
struct Prog {
    name: String,
    nloc: usize,
    nregs: usize,
    threads: Vec<Vec<Op>>,
}

fn ord(s: &str) -> Ordering {
    match s {
        "rlx" => Ordering::Relaxed,
        "acq" => Ordering::Acquire,
        "rel" => Ordering::Release,
        "acqrel" => Ordering::AcqRel,
        _ => Ordering::SeqCst,
    }
}

/// The dump format is line based: `P <name>|<nloc>|<nregs>` starts a program, `T` starts a thread,
/// `st <loc> <val> <ord>`, `ld <reg> <loc> <ord>`, `rmw <loc> <val> <ord>`, `fence <ord>` are operations.
fn parse(input: &str) -> Vec<Prog> {
    let mut out: Vec<Prog> = vec![];
    for line in input.lines() {
        let line = line.trim();
        if let Some(rest) = line.strip_prefix("P ") {
            let f: Vec<&str> = rest.split('|').collect();
            out.push(Prog { name: f[0].to_string(), nloc: f[1].parse().unwrap(), nregs: f[2].parse().unwrap(), threads: vec![] });
        } else if line == "T" {
            out.last_mut().unwrap().threads.push(vec![]);
        } else if !line.is_empty() {
            let f: Vec<&str> = line.split_whitespace().collect();
            let op = match f[0] {
                "st" => Op::St(f[1].parse().unwrap(), f[2].parse().unwrap(), ord(f[3])),
                "ld" => Op::Ld(f[1].parse().unwrap(), f[2].parse().unwrap(), ord(f[3])),
                "rmw" => Op::Rmw(f[1].parse().unwrap(), f[2].parse().unwrap(), ord(f[3])),
                "fence" => Op::Fence(ord(f[1])),
                other => panic!("unknown op {other}"),
            };
            out.last_mut().unwrap().threads.last_mut().unwrap().push(op);
        }
    }
    out
}

fn run(p: &Prog) -> (BTreeSet<Vec<u8>>, u64) {
    let outcomes: &'static Mutex<BTreeSet<Vec<u8>>> = Box::leak(Box::new(Mutex::new(BTreeSet::new())));
    let iters: &'static Mutex<u64> = Box::leak(Box::new(Mutex::new(0)));
    let prog = p.clone();
    loom::model(move || {
        let locs: Vec<Arc<AtomicU8>> = (0..prog.nloc).map(|_| Arc::new(AtomicU8::new(0))).collect();
        // every role is a spawned thread (with a role on loom's main thread loom explores fewer behaviours)
        let handles: Vec<_> = prog
            .threads
            .iter()
            .map(|ops| {
                let ops = ops.clone();
                let locs = locs.clone();
                loom::thread::spawn(move || {
                    let mut regs: Vec<(usize, u8)> = vec![];
                    for op in ops {
                        match op {
                            Op::St(l, v, o) => locs[l].store(v, o),
                            Op::Ld(r, l, o) => regs.push((r, locs[l].load(o))),
                            Op::Rmw(l, v, o) => {
                                locs[l].fetch_add(v, o);
                            }
                            Op::Fence(o) => fence(o),
                        }
                    }
                    regs
                })
            })
            .collect();
        let mut regs = vec![0u8; prog.nregs];
        for h in handles {
            for (r, v) in h.join().unwrap() {
                regs[r] = v;
            }
        }
        outcomes.lock().unwrap().insert(regs);
        *iters.lock().unwrap() += 1;
    });
    let o = outcomes.lock().unwrap().clone();
    let n = *iters.lock().unwrap();
    (o, n)
}

fn main() {
    let mut input = String::new();
    std::io::stdin().read_to_string(&mut input).unwrap();
    let only: Option<String> = std::env::args().nth(1);
    for p in parse(&input) {
        if let Some(o) = &only {
            if !p.name.contains(o.as_str()) {
                continue;
            }
        }
        let t0 = std::time::Instant::now();
        let (set, iters) = run(&p);
        let sets: Vec<String> = set.iter().map(|r| r.iter().map(|x| x.to_string()).collect::<Vec<_>>().join(",")).collect();
        println!("R {}|{}|{:.2}|{}", p.name, iters, t0.elapsed().as_secs_f64(), sets.join(";"));
    }
}
